#!/usr/bin/env python3
"""Validate MANIFEST.json and every evidence file against the schemas in /root/.vp."""
import json, sys, glob, os
try:
    import jsonschema
except ImportError:
    sys.path.insert(0, glob.glob('/opt/veriftools/pyvenv/lib/python3*/site-packages')[0])
    import jsonschema
root = os.path.dirname(os.path.dirname(os.path.abspath(__file__)))
ok = True
def check(path, schema):
    global ok
    try:
        jsonschema.validate(json.load(open(path)), json.load(open(schema)))
        print("ok  ", path)
    except Exception as e:
        ok = False
        print("FAIL", path, str(e)[:300])
if os.path.exists(f"{root}/MANIFEST.json"):
    check(f"{root}/MANIFEST.json", "/root/.vp/MANIFEST.schema.json")
for p in sorted(glob.glob(f"{root}/evidence/*.json")):
    check(p, "/root/.vp/EVIDENCE.schema.json")
sys.exit(0 if ok else 1)
