#!/usr/bin/env bash
# Re-evaluate every seeded change with the committed harness (all 20 checks, quick tier, seed 1), 4 at a time.
# TARGET_ONLY=1: only the check of the property the change was written against. Logs go to /tmp/seed-reeval/<id>.log (development aid; results are folded into seeded/<id>/meta.json by tools/fold_reeval.py)
cd "$(dirname "$0")/.."
mkdir -p /tmp/seed-reeval
ls seeded | grep -E '^C[0-9]+-[A-Z]$' | awk '{print NR%4, $0}' | while read slot id; do echo "$slot $id"; done > /tmp/seed-reeval/plan.txt
for slot in 0 1 2 3; do
  ( grep "^$slot " /tmp/seed-reeval/plan.txt | while read s id; do if [ -n "${TARGET_ONLY:-}" ]; then C="${id%%-*}"; elif [ -n "${ROUND1_TARGET_ONLY:-}" ] && [[ "$id" == *-[AB] ]]; then C="${id%%-*}"; else C="${CHECKS:-}"; fi; [ -s /tmp/seed-reeval/$id.log ] && [ -z "${FORCE:-}" ] && continue; SLOT=re$slot tools/try_mutant.sh seeded/$id/patch.diff $C > /tmp/seed-reeval/$id.log 2>&1; done ) &
done
wait
