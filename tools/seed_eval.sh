#!/usr/bin/env bash
# usage: tools/seed_eval.sh <Cxx> <A|B> [checks...]   (uses /tmp/mut-Cxx/out)
P="$1"; X="$2"; shift 2
cd "$(dirname "$0")/.."
echo "=== $P $X"
tools/verify_seed.sh /tmp/mut-$P /tmp/mut-$P/out/$X.diff /tmp/mut-$P/out/demo_$X.rs
tools/try_mutant.sh /tmp/mut-$P/out/$X.diff "$@"
