#!/usr/bin/env python3
"""Collect a verified seeded change into /verif/seeded/<id>/ from a mutation worktree and its evaluation log.
usage: collect_seed.py <Cxx> <C|D> [--log /tmp/seedlogs/Cxx-X.log]"""
import sys, os, json, re, shutil
prop, x = sys.argv[1], sys.argv[2]
log = f"/tmp/mut5-{prop}/out/eval_{x}.txt"
if "--log" in sys.argv: log = sys.argv[sys.argv.index("--log")+1]
src = f"/tmp/mut5-{prop}/out"
root = os.path.dirname(os.path.dirname(os.path.abspath(__file__)))
dst = f"{root}/seeded/{prop}-{x}"
text = open(log).read()
suite_ok = "suite with change:   test result: ok" in text
demo_fail = "demo with change:    fails (good)" in text
demo_pass = "demo without change: pass" in text
if not (suite_ok and demo_fail and demo_pass):
    print(f"{prop}-{x}: NOT confirmed (suite_ok={suite_ok} demo_fails_with={demo_fail} demo_passes_without={demo_pass}); not kept"); sys.exit(1)
caught = {}
missed, broken = [], []
for l in text.splitlines():
    m = re.match(r"^(C\d\d) CAUGHT\s+(.*)$", l)
    if m: caught[m.group(1)] = m.group(2).strip()
    m = re.match(r"^(C\d\d) missed", l)
    if m: missed.append(m.group(1))
    m = re.match(r"^(C\d\d) broken", l)
    if m: broken.append(m.group(1))
os.makedirs(dst, exist_ok=True)
shutil.copy(f"{src}/{x}.diff", f"{dst}/patch.diff")
shutil.copy(f"{src}/demo_{x}.rs", f"{dst}/demo.rs")
notes = open(f"{src}/notes.md").read()
open(f"{dst}/agent_notes.md", "w").write(notes)
# the part of the notes about this change (best effort)
sec = re.split(r"\n(?=#+ .*\bI\b)", notes)
mine = [s for s in sec if re.match(rf"#+ .*\b{x}\b", s)]
meta = {
    "id": f"{prop}-{x}",
    "breaks_property": prop, "round": 5, "title": (re.match(r"#+\s*I\s*[-:—]+\s*(.*)", mine[0]).group(1).strip() if mine and re.match(r"#+\s*I\s*[-:—]+\s*(.*)", mine[0]) else ""),
    "origin": "independent sub-agent given only the property text and a scratch worktree of /repo (no access to /verif)",
    "needs_to_manifest": (mine[0][:1500] if mine else "see agent_notes.md"),
    "confirmed_by_me": {
        "existing_suite_with_change": "79 passed" if suite_ok else "?",
        "demo_without_change": "passes",
        "demo_with_change": "fails",
        "how": "tools/verify_seed.sh in the agent's scratch worktree (clean checkout of /repo HEAD + patch); cargo test --offline [--features std --test demo]",
    },
    "checks_run": "tools/try_mutant.sh <patch> (all 20 checks, quick tier, seed 1) on a scratch worktree of /repo HEAD with the patch applied and a scratch copy of the committed harness pointed at it",
    "caught_by": caught,
    "target_check_catches_it": prop in caught,
    "missed_by": missed,
    "broken": broken,
}
json.dump(meta, open(f"{dst}/meta.json", "w"), indent=1)
print(f"{prop}-{x}: kept; target {'CAUGHT' if prop in caught else 'MISSED'}; caught by {sorted(caught)}")
