#!/usr/bin/env bash
# Confirm a seeded change independently in scratch worktree W (a clean checkout of /repo's HEAD):
# existing suite passes with the change, demo fails with it, demo passes without it.
# usage: tools/verify_seed.sh <worktree> <patch.diff> <demo.rs>
set -u
W="$1"; PATCH="$(readlink -f "$2")"; DEMO="$(readlink -f "$3")"
cd "$W" || exit 2
git checkout -q -- . ; rm -rf tests; NAME=$(basename "$DEMO" .rs)
git apply "$PATCH" || { echo "patch does not apply"; exit 2; }
echo -n "suite with change:   "; if cargo test --offline >/tmp/vs.$$ 2>&1; then grep -m1 "^test result" /tmp/vs.$$; else echo FAIL; grep -E "FAILED|failed|error" /tmp/vs.$$ | head -5; fi
mkdir -p tests; cp "$DEMO" tests/
echo -n "demo with change:    "; if cargo test --offline --features std,bincode-codec,postcard-codec --test "$NAME" >/tmp/vs.$$ 2>&1; then echo "pass (BAD: should fail)"; else echo "fails (good): $(grep -E "panicked" /tmp/vs.$$ | head -1 | cut -c1-160)"; fi
git checkout -q -- .
echo -n "demo without change: "; if cargo test --offline --features std,bincode-codec,postcard-codec --test "$NAME" >/tmp/vs.$$ 2>&1; then echo pass; else echo FAIL; tail -5 /tmp/vs.$$; fi
rm -rf tests; rm -f /tmp/vs.$$
