#!/usr/bin/env python3
"""Markdown table of the seeded changes under /verif/seeded (for DESIGN.md §11)."""
import json, glob, os
root = os.path.dirname(os.path.dirname(os.path.abspath(__file__)))
print("| seeded change | breaks | target check | first rule that fired (quick, seed 1) | also caught by |")
print("|---|---|---|---|---|")
for d in sorted(glob.glob(f"{root}/seeded/*/meta.json")):
    m = json.load(open(d))
    pid = m["breaks_property"]
    rule = m["caught_by"].get(pid, "")
    rule = rule.split(" [")[0] if rule else "**missed**"
    others = ", ".join(k for k in sorted(m["caught_by"]) if k != pid)
    title = m.get("title", "")
    print(f"| {m['id']} {title} | {pid} | {'caught' if m['target_check_catches_it'] else '**MISSED**'} | {rule} | {others} |")
