#!/usr/bin/env bash
# Apply a seeded change to /repo, run the given checks (default: all, quick tier), undo it.
# usage: tools/try_mutant.sh <patch.diff> [check ids...]
# Prints one line per check: <id> CAUGHT|missed|broken (exit code) and the first rule that fired.
set -u
cd "$(dirname "$0")/.."
PATCH="$(readlink -f "$1")"; shift
CHECKS="${*:-C01 C02 C03 C04 C05 C06 C07 C08 C09 C10 C11 C12 C13 C14 C15 C16 C17 C18 C19 C20}"
if ! git -C /repo diff --quiet; then echo "/repo has uncommitted changes; refusing" >&2; exit 2; fi
git -C /repo apply "$PATCH" || { echo "patch does not apply" >&2; exit 2; }
trap 'git -C /repo checkout -- . ' EXIT
export FV_OUT_DIR=/tmp/fv-mut-verif
rm -rf "$FV_OUT_DIR"; mkdir -p "$FV_OUT_DIR/evidence" "$FV_OUT_DIR/replays"; cp known_findings.txt "$FV_OUT_DIR/" 2>/dev/null
for c in $CHECKS; do
    out=$(./check "$c" "${TIER:-quick}" 2>&1); rc=$?
    rule=$(echo "$out" | grep -m1 "^  rule" | sed 's/^  rule //' | cut -c1-150)
    case $rc in
        0) echo "$c missed";;
        1) echo "$c CAUGHT  $rule";;
        *) echo "$c broken($rc) $(echo "$out" | tail -2 | tr '\n' ' ' | cut -c1-200)";;
    esac
done
