#!/usr/bin/env bash
# Evaluate a seeded change WITHOUT touching /repo: a scratch worktree of /repo's HEAD gets the patch, a
# scratch copy of the harness is pointed at it, and the given checks (default all, quick tier) are run.
# usage: tools/try_mutant.sh <patch.diff> [check ids...]      env: SLOT=<name> to run several in parallel, TIER=quick|thorough
# (The official procedure — git -C /repo apply; ./check ...; git -C /repo checkout -- . — gives the same verdicts.)
set -u
cd "$(dirname "$0")/.."
PATCH="$(readlink -f "$1")"; shift
CHECKS="${*:-C01 C02 C03 C04 C05 C06 C07 C08 C09 C10 C11 C12 C13 C14 C15 C16 C17 C18 C19 C20}"
S=/tmp/fv-mut-${SLOT:-0}
if [ ! -d "$S/repo" ]; then mkdir -p "$S"; git -C /repo worktree add -q --detach "$S/repo" HEAD || exit 2; fi
git -C "$S/repo" checkout -q --detach "$(git -C /repo rev-parse HEAD)" && git -C "$S/repo" checkout -q -- . && git -C "$S/repo" clean -qfd
git -C "$S/repo" apply "$PATCH" || { echo "patch does not apply" >&2; exit 2; }
# harness sources as committed (HEAD), so that half-edited working files never get in the way
mkdir -p "$S/harness" "$S/src.tmp"; rm -rf "$S/src.tmp"/*; git archive HEAD harness | tar -x -C "$S/src.tmp"
rsync -a --delete --exclude target --exclude 'target.build-*' "$S/src.tmp/harness/" "$S/harness/"
sed -i "s#path = \"/repo\"#path = \"$S/repo\"#" "$S/harness/Cargo.toml"
export FV_HARNESS_DIR="$S/harness" FV_OUT_DIR="$S/out"
rm -rf "$FV_OUT_DIR"; mkdir -p "$FV_OUT_DIR/evidence" "$FV_OUT_DIR/replays"; cp known_findings.txt "$FV_OUT_DIR/" 2>/dev/null
for c in $CHECKS; do
    out=$(./check "$c" "${TIER:-quick}" 2>&1); rc=$?
    rule=$(echo "$out" | grep -m1 "^  rule" | sed 's/^  rule //' | cut -c1-170)
    case $rc in
        0) echo "$c missed";;
        1) echo "$c CAUGHT  $rule";;
        *) echo "$c broken($rc) $(echo "$out" | tail -2 | tr '\n' ' ' | cut -c1-200)";;
    esac
done
git -C "$S/repo" checkout -q -- .
