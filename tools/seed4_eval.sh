#!/usr/bin/env bash
# Round 2: usage: tools/seed2_eval.sh <Cxx> <G|H> [checks...]   (agent output in /tmp/mut4-Cxx/out; results to /tmp/mut4-Cxx/out/eval_<X>.txt)
P="$1"; X="$2"; shift 2
cd "$(dirname "$0")/.."
{
echo "=== $P $X"
tools/verify_seed.sh /tmp/mut4-$P /tmp/mut4-$P/out/$X.diff /tmp/mut4-$P/out/demo_$X.rs
SLOT=${SLOT:-$P} tools/try_mutant.sh /tmp/mut4-$P/out/$X.diff "$@"
} 2>&1 | tee /tmp/mut4-$P/out/eval_$X.txt
