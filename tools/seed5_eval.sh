#!/usr/bin/env bash
# Round 2: usage: tools/seed2_eval.sh <Cxx> <I> [checks...]   (agent output in /tmp/mut5-Cxx/out; results to /tmp/mut5-Cxx/out/eval_<X>.txt)
P="$1"; X="$2"; shift 2
cd "$(dirname "$0")/.."
{
echo "=== $P $X"
tools/verify_seed.sh /tmp/mut5-$P /tmp/mut5-$P/out/$X.diff /tmp/mut5-$P/out/demo_$X.rs
SLOT=${SLOT:-$P} tools/try_mutant.sh /tmp/mut5-$P/out/$X.diff "$@"
} 2>&1 | tee /tmp/mut5-$P/out/eval_$X.txt
