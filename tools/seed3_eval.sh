#!/usr/bin/env bash
# Round 2: usage: tools/seed2_eval.sh <Cxx> <E|F> [checks...]   (agent output in /tmp/mut3-Cxx/out; results to /tmp/mut3-Cxx/out/eval_<X>.txt)
P="$1"; X="$2"; shift 2
cd "$(dirname "$0")/.."
{
echo "=== $P $X"
tools/verify_seed.sh /tmp/mut3-$P /tmp/mut3-$P/out/$X.diff /tmp/mut3-$P/out/demo_$X.rs
SLOT=${SLOT:-$P} tools/try_mutant.sh /tmp/mut3-$P/out/$X.diff "$@"
} 2>&1 | tee /tmp/mut3-$P/out/eval_$X.txt
