#!/usr/bin/env python3
"""Generate MANIFEST.json from tools/manifest_src.json (claimed checks) and properties.jsonl.
Every property without an entry in manifest_src.json is listed under not_applicable."""
import json, os, subprocess
root = os.path.dirname(os.path.dirname(os.path.abspath(__file__)))
src = json.load(open(f"{root}/tools/manifest_src.json"))
props = [json.loads(l) for l in open(f"{root}/properties.jsonl")]
checks, na = [], []
for p in props:
    pid = p["id"]
    if pid in src["checks"]:
        c = src["checks"][pid]
        checks.append({
            "property_id": pid,
            "quick_cmd": f"./check {pid} quick",
            "thorough_cmd": f"./check {pid} thorough",
            "evidence_file": f"/verif/evidence/{pid}.json",
            "replay_cmd_template": f"./check {pid} --replay {{path}}",
            "engine": "fv",
            "level_claimed": {"category": c["category"], "text": c["text"], "design_ref": c.get("design_ref", f"DESIGN.md §3 {pid}")},
            "level_note": c["note"],
            "technique": c["technique"],
        })
    else:
        na.append({"property_id": pid, "reason": src["not_applicable"].get(pid, "check not built yet in this session; see DESIGN.md §3 for the planned monitor")})
hooks_commits = src["hooks_commits"]
m = {
    "version": 1,
    "setup_cmd": "./check --setup",
    "hooks": {
        "guard": "cargo feature verif-hooks (off by default)",
        "enable": "harness/Cargo.toml depends on foca = { path = \"/repo\", features = [\"std\",\"bincode-codec\",\"postcard-codec\",\"verif-hooks\"] }; every ./check run rebuilds it from /repo's working tree",
        "baseline_off_cmd": "cd /repo && cargo test --workspace --no-fail-fast --offline",
        "source_commits": hooks_commits,
        "add_only": True,
    },
    "engines": [{"name": "fv", "path": "/verif/harness", "serves_properties": [c["property_id"] for c in checks],
                 "kind_free_text": "Rust harness: real foca instances behind a recording Runtime, seeded hostile workloads (single-instance histories, chaos net, discrete-event cluster simulator), one online monitor per property over the boundary event log; sharded over 16 child processes"}],
    "checks": checks,
    "notes": src["notes"],
    "not_applicable": na,
}
json.dump(m, open(f"{root}/MANIFEST.json", "w"), indent=1)
print(f"{len(checks)} checks, {len(na)} not applicable")
