#!/usr/bin/env python3
"""Fold /tmp/seed-reeval/<id>.log (tools/reeval_all.sh) into seeded/<id>/meta.json for every seeded change and print
the detection table (markdown). Creates meta.json for rounds 2/3 from first_eval.txt (independent confirmation) + titles."""
import json, os, re, glob, subprocess
root = os.path.dirname(os.path.dirname(os.path.abspath(__file__)))
titles = {}
for f in ("titles2.json", "titles3.json", "titles4.json"):
    p = f"{root}/tools/{f}"
    if os.path.exists(p): titles.update(json.load(open(p)))
head = subprocess.run(["git", "-C", root, "rev-parse", "--short", "HEAD"], capture_output=True, text=True).stdout.strip()
rows = []
for d in sorted(glob.glob(f"{root}/seeded/C*-?")):
    sid = os.path.basename(d)
    prop, x = sid.split("-")
    log = f"/tmp/seed-reeval/{sid}.log"
    mp = f"{d}/meta.json"
    meta = json.load(open(mp)) if os.path.exists(mp) else None
    if meta is None:
        fe = open(f"{d}/first_eval.txt").read()
        ok = ("test result: ok" in fe) and ("fails (good)" in fe) and ("demo without change: pass" in fe)
        meta = {
            "id": sid, "title": titles.get(sid, ""), "breaks_property": prop,
            "round": {"C": 2, "D": 2, "E": 3, "F": 3, "G": 4, "H": 4}.get(x, 1),
            "origin": "independent sub-agent given only the property text (and the titles of earlier changes, to look elsewhere) and a scratch worktree of /repo (no access to /verif)",
            "needs_to_manifest": "see agent_notes.md",
            "confirmed_by_me": {"existing_suite_with_change": "79 passed" if ok else "?", "demo_without_change": "passes", "demo_with_change": "fails",
                                "how": "tools/verify_seed.sh in the agent's scratch worktree (clean checkout of /repo HEAD + patch); log in first_eval.txt"},
        }
        m = re.findall(r"^(C\d\d) (CAUGHT|missed)", fe, re.M)
        meta["first_evaluation"] = {"target_caught": any(c == prop and r == "CAUGHT" for c, r in m), "note": "harness as it was when the change arrived (before the additions the round led to)"}
        # by-catch of the first evaluation (all 20 checks were run then for round 2; round 3 ran the target only)
        meta["caught_by"] = {mm.group(1): mm.group(2).strip()[:200] for mm in re.finditer(r"^(C\d\d) CAUGHT\s+(.*)$", fe, re.M)}
    if os.path.exists(log):
        text = open(log).read()
        caught, missed, broken = {}, [], []
        for l in text.splitlines():
            m = re.match(r"^(C\d\d) CAUGHT\s+(.*)$", l)
            if m: caught[m.group(1)] = m.group(2).strip()[:200]
            m = re.match(r"^(C\d\d) missed", l)
            if m: missed.append(m.group(1))
            m = re.match(r"^(C\d\d) broken", l)
            if m: broken.append(m.group(1))
        if caught or missed or broken:
            ran = sorted(set(caught) | set(missed) | set(broken))
            meta["checks_run"] = f"final re-evaluation: tools/try_mutant.sh <patch> {' '.join(ran) if len(ran) < 20 else '(all 20 checks)'} (quick tier, seed 1) on a scratch worktree of /repo HEAD with the patch applied and a scratch copy of the committed harness ({head}) pointed at it; entries of caught_by for checks not re-run come from the earlier evaluation"
            old = dict(meta.get("caught_by", {}))
            for c in ran:
                old.pop(c, None)
            old.update(caught)
            meta["caught_by"] = old
            meta["target_check_catches_it"] = prop in caught
            meta["missed_by"] = [c for c in missed]
            meta["broken"] = broken
    json.dump(meta, open(mp, "w"), indent=1)
    rows.append(meta)
print("| seeded change | breaks | target check | first rule that fired (quick, seed 1) | also caught by |")
print("|---|---|---|---|---|")
for m in rows:
    pid = m["breaks_property"]
    cb = m.get("caught_by", {})
    rule = cb.get(pid, "")
    rule = rule.split(" [")[0] if rule else "**missed**"
    others = ", ".join(k for k in sorted(cb) if k != pid)
    print(f"| {m['id']} {m.get('title','')} | {pid} | {'caught' if m.get('target_check_catches_it') else '**MISSED**'} | {rule} | {others} |")
