//! Codecs given to Foca: a hand-written variable-length one (clean or
//! deliberately "dirty on failure") and adapters around the bundled serde
//! codecs, all behind one enum so that there is a single Foca type.
use crate::ids::Id;
use bytes::{Buf, BufMut};
use foca::{BincodeCodec, Codec, Header, Member, Message, PostcardCodec, State};
use serde::{Deserialize, Serialize};

#[derive(Debug)]
pub struct CErr(pub String);
impl std::fmt::Display for CErr {
    fn fmt(&self, f: &mut std::fmt::Formatter<'_>) -> std::fmt::Result {
        f.write_str(&self.0)
    }
}
impl std::error::Error for CErr {}

#[derive(Clone, Copy, Debug, PartialEq, Eq, Hash, Serialize, Deserialize)]
pub enum CodecKind {
    Hand,
    /// like Hand, but writes as many bytes as fit before reporting failure
    HandDirty,
    BincodeStd,
    BincodeLegacy,
    Postcard,
}

pub const ALL_CODECS: [CodecKind; 5] = [
    CodecKind::Hand,
    CodecKind::HandDirty,
    CodecKind::BincodeStd,
    CodecKind::BincodeLegacy,
    CodecKind::Postcard,
];

pub type BinStd = bincode::config::Configuration<
    bincode::config::LittleEndian,
    bincode::config::Varint,
    bincode::config::Limit<65536>,
>;
pub type BinLegacy = bincode::config::Configuration<
    bincode::config::LittleEndian,
    bincode::config::Fixint,
    bincode::config::Limit<65536>,
>;
pub fn bin_std() -> BinStd {
    bincode::config::standard().with_limit::<65536>()
}
pub fn bin_legacy() -> BinLegacy {
    bincode::config::legacy().with_limit::<65536>()
}

#[derive(Clone, Copy, Debug)]
pub struct AnyCodec(pub CodecKind);

fn e<E: std::fmt::Display>(x: E) -> CErr {
    CErr(x.to_string())
}

impl Codec<Id> for AnyCodec {
    type Error = CErr;

    fn encode_header(&mut self, h: &Header<Id>, buf: impl BufMut) -> Result<(), CErr> {
        match self.0 {
            CodecKind::Hand => hand::encode_header(h, buf, false),
            CodecKind::HandDirty => hand::encode_header(h, buf, true),
            CodecKind::BincodeStd => BincodeCodec(bin_std()).encode_header(h, buf).map_err(e),
            CodecKind::BincodeLegacy => BincodeCodec(bin_legacy()).encode_header(h, buf).map_err(e),
            CodecKind::Postcard => PostcardCodec.encode_header(h, buf).map_err(e),
        }
    }

    fn decode_header(&mut self, buf: impl Buf) -> Result<Header<Id>, CErr> {
        match self.0 {
            CodecKind::Hand | CodecKind::HandDirty => hand::decode_header(buf),
            CodecKind::BincodeStd => BincodeCodec(bin_std()).decode_header(buf).map_err(e),
            CodecKind::BincodeLegacy => BincodeCodec(bin_legacy()).decode_header(buf).map_err(e),
            CodecKind::Postcard => PostcardCodec.decode_header(buf).map_err(e),
        }
    }

    fn encode_member(&mut self, m: &Member<Id>, buf: impl BufMut) -> Result<(), CErr> {
        match self.0 {
            CodecKind::Hand => hand::encode_member(m, buf, false),
            CodecKind::HandDirty => hand::encode_member(m, buf, true),
            CodecKind::BincodeStd => BincodeCodec(bin_std()).encode_member(m, buf).map_err(e),
            CodecKind::BincodeLegacy => BincodeCodec(bin_legacy()).encode_member(m, buf).map_err(e),
            CodecKind::Postcard => PostcardCodec.encode_member(m, buf).map_err(e),
        }
    }

    fn decode_member(&mut self, buf: impl Buf) -> Result<Member<Id>, CErr> {
        match self.0 {
            CodecKind::Hand | CodecKind::HandDirty => hand::decode_member(buf),
            CodecKind::BincodeStd => BincodeCodec(bin_std()).decode_member(buf).map_err(e),
            CodecKind::BincodeLegacy => BincodeCodec(bin_legacy()).decode_member(buf).map_err(e),
            CodecKind::Postcard => PostcardCodec.decode_member(buf).map_err(e),
        }
    }
}

/// Hand-written wire format.
///
/// id      := addr:u16be gen:u8 padlen:u8 pad[padlen] (padlen == addr % 3, pad bytes 0xEE)
/// header  := id(src) inc:u16be id(dst) kind:u8 [nr:u8 | id nr:u8]
/// member  := id inc:u16be state:u8
pub mod hand {
    use super::*;

    pub fn id_len(id: &Id) -> usize {
        4 + id.pad_len()
    }

    struct W<B: BufMut> {
        b: B,
        dirty: bool,
    }
    impl<B: BufMut> W<B> {
        fn need(&self, n: usize) -> Result<(), CErr> {
            if !self.dirty && self.b.remaining_mut() < n {
                return Err(CErr("no space".into()));
            }
            Ok(())
        }
        fn u8(&mut self, x: u8) -> Result<(), CErr> {
            if self.b.remaining_mut() < 1 {
                return Err(CErr("no space".into()));
            }
            self.b.put_u8(x);
            Ok(())
        }
        fn u16(&mut self, x: u16) -> Result<(), CErr> {
            self.u8((x >> 8) as u8)?;
            self.u8(x as u8)
        }
        fn id(&mut self, id: &Id) -> Result<(), CErr> {
            self.u16(id.addr)?;
            self.u8(id.gen)?;
            self.u8(id.pad_len() as u8)?;
            for _ in 0..id.pad_len() {
                self.u8(0xEE)?;
            }
            Ok(())
        }
    }

    pub fn kind_code(m: &Message<Id>) -> (u8, Option<Id>, Option<u8>) {
        match m {
            Message::Ping(n) => (1, None, Some(*n)),
            Message::Ack(n) => (2, None, Some(*n)),
            Message::PingReq { target, probe_number } => (3, Some(*target), Some(*probe_number)),
            Message::IndirectPing { origin, probe_number } => (4, Some(*origin), Some(*probe_number)),
            Message::IndirectAck { target, probe_number } => (5, Some(*target), Some(*probe_number)),
            Message::ForwardedAck { origin, probe_number } => (6, Some(*origin), Some(*probe_number)),
            Message::Gossip => (7, None, None),
            Message::Announce => (8, None, None),
            Message::Feed => (9, None, None),
            Message::Broadcast => (10, None, None),
            Message::TurnUndead => (11, None, None),
        }
    }

    pub fn header_len(h: &Header<Id>) -> usize {
        let (_, id, nr) = kind_code(&h.message);
        id_len(&h.src) + 2 + id_len(&h.dst) + 1 + id.map_or(0, |i| id_len(&i)) + nr.map_or(0, |_| 1)
    }

    pub fn member_len(m: &Member<Id>) -> usize {
        id_len(m.id()) + 3
    }

    pub fn encode_header(h: &Header<Id>, buf: impl BufMut, dirty: bool) -> Result<(), CErr> {
        let mut w = W { b: buf, dirty };
        w.need(header_len(h))?;
        let (k, id, nr) = kind_code(&h.message);
        w.id(&h.src)?;
        w.u16(h.src_incarnation)?;
        w.id(&h.dst)?;
        w.u8(k)?;
        if let Some(i) = id {
            w.id(&i)?;
        }
        if let Some(n) = nr {
            w.u8(n)?;
        }
        Ok(())
    }

    pub fn encode_member(m: &Member<Id>, buf: impl BufMut, dirty: bool) -> Result<(), CErr> {
        let mut w = W { b: buf, dirty };
        w.need(member_len(m))?;
        w.id(m.id())?;
        w.u16(m.incarnation())?;
        w.u8(match m.state() {
            State::Alive => 0,
            State::Suspect => 1,
            State::Down => 2,
        })
    }

    fn g8(b: &mut impl Buf) -> Result<u8, CErr> {
        if b.remaining() < 1 {
            return Err(CErr("short".into()));
        }
        Ok(b.get_u8())
    }
    fn g16(b: &mut impl Buf) -> Result<u16, CErr> {
        if b.remaining() < 2 {
            return Err(CErr("short".into()));
        }
        Ok(b.get_u16())
    }
    fn gid(b: &mut impl Buf) -> Result<Id, CErr> {
        let addr = g16(b)?;
        let gen = g8(b)?;
        let pad = g8(b)? as usize;
        if pad != (addr % 3) as usize {
            return Err(CErr("bad pad length".into()));
        }
        for _ in 0..pad {
            if g8(b)? != 0xEE {
                return Err(CErr("bad pad byte".into()));
            }
        }
        Ok(Id::new(addr, gen))
    }

    pub fn decode_header(mut b: impl Buf) -> Result<Header<Id>, CErr> {
        let src = gid(&mut b)?;
        let src_incarnation = g16(&mut b)?;
        let dst = gid(&mut b)?;
        let k = g8(&mut b)?;
        let message = match k {
            1 => Message::Ping(g8(&mut b)?),
            2 => Message::Ack(g8(&mut b)?),
            3..=6 => {
                let id = gid(&mut b)?;
                let probe_number = g8(&mut b)?;
                match k {
                    3 => Message::PingReq { target: id, probe_number },
                    4 => Message::IndirectPing { origin: id, probe_number },
                    5 => Message::IndirectAck { target: id, probe_number },
                    _ => Message::ForwardedAck { origin: id, probe_number },
                }
            }
            7 => Message::Gossip,
            8 => Message::Announce,
            9 => Message::Feed,
            10 => Message::Broadcast,
            11 => Message::TurnUndead,
            _ => return Err(CErr("bad kind".into())),
        };
        Ok(Header { src, src_incarnation, dst, message })
    }

    pub fn decode_member(mut b: impl Buf) -> Result<Member<Id>, CErr> {
        let id = gid(&mut b)?;
        let inc = g16(&mut b)?;
        let st = match g8(&mut b)? {
            0 => State::Alive,
            1 => State::Suspect,
            2 => State::Down,
            _ => return Err(CErr("bad state".into())),
        };
        Ok(Member::new(id, inc, st))
    }
}
