//! Independent datagram grammar: parser and builder that never call foca's
//! `Codec` implementations. For the serde codecs they call bincode/postcard
//! directly on the public `Header`/`Member` types.
use crate::codecs::{bin_legacy, bin_std, CodecKind};
use crate::ids::Id;
use foca::{Header, Member, Message, State};

#[derive(Clone, Debug)]
pub struct Parsed {
    pub header: Header<Id>,
    pub header_len: usize,
    /// None when the datagram has no member section
    pub members: Option<Vec<Member<Id>>>,
    /// encoded bytes of each member, same order
    pub member_bytes: Vec<Vec<u8>>,
    pub members_end: usize,
    pub items: Vec<Vec<u8>>,
    pub len: usize,
}

pub fn kind_name(m: &Message<Id>) -> &'static str {
    match m {
        Message::Ping(_) => "Ping",
        Message::Ack(_) => "Ack",
        Message::PingReq { .. } => "PingReq",
        Message::IndirectPing { .. } => "IndirectPing",
        Message::IndirectAck { .. } => "IndirectAck",
        Message::ForwardedAck { .. } => "ForwardedAck",
        Message::Gossip => "Gossip",
        Message::Announce => "Announce",
        Message::Feed => "Feed",
        Message::Broadcast => "Broadcast",
        Message::TurnUndead => "TurnUndead",
    }
}
pub const KINDS: [&str; 11] = [
    "Ping", "Ack", "PingReq", "IndirectPing", "IndirectAck", "ForwardedAck", "Gossip", "Announce", "Feed",
    "Broadcast", "TurnUndead",
];

pub fn piggybacks(m: &Message<Id>) -> bool {
    !matches!(m, Message::Announce | Message::TurnUndead | Message::Broadcast)
}
pub fn may_carry_custom(m: &Message<Id>) -> bool {
    !matches!(m, Message::Announce | Message::TurnUndead)
}

struct Cur<'a> {
    b: &'a [u8],
    p: usize,
}
impl<'a> Cur<'a> {
    fn u8(&mut self) -> Result<u8, String> {
        let x = *self.b.get(self.p).ok_or("truncated")?;
        self.p += 1;
        Ok(x)
    }
    fn u16(&mut self) -> Result<u16, String> {
        Ok(((self.u8()? as u16) << 8) | self.u8()? as u16)
    }
    fn id(&mut self) -> Result<Id, String> {
        let addr = self.u16()?;
        let gen = self.u8()?;
        let pad = self.u8()? as usize;
        if pad != (addr % 3) as usize {
            return Err("identity padding length".into());
        }
        for _ in 0..pad {
            if self.u8()? != 0xEE {
                return Err("identity padding byte".into());
            }
        }
        Ok(Id::new(addr, gen))
    }
}

fn hand_header(b: &[u8]) -> Result<(Header<Id>, usize), String> {
    let mut c = Cur { b, p: 0 };
    let src = c.id()?;
    let src_incarnation = c.u16()?;
    let dst = c.id()?;
    let message = match c.u8()? {
        1 => Message::Ping(c.u8()?),
        2 => Message::Ack(c.u8()?),
        k @ 3..=6 => {
            let id = c.id()?;
            let probe_number = c.u8()?;
            match k {
                3 => Message::PingReq { target: id, probe_number },
                4 => Message::IndirectPing { origin: id, probe_number },
                5 => Message::IndirectAck { target: id, probe_number },
                _ => Message::ForwardedAck { origin: id, probe_number },
            }
        }
        7 => Message::Gossip,
        8 => Message::Announce,
        9 => Message::Feed,
        10 => Message::Broadcast,
        11 => Message::TurnUndead,
        k => return Err(format!("unknown message kind {k}")),
    };
    Ok((Header { src, src_incarnation, dst, message }, c.p))
}

fn hand_member(b: &[u8]) -> Result<(Member<Id>, usize), String> {
    let mut c = Cur { b, p: 0 };
    let id = c.id()?;
    let inc = c.u16()?;
    let st = match c.u8()? {
        0 => State::Alive,
        1 => State::Suspect,
        2 => State::Down,
        s => return Err(format!("unknown state {s}")),
    };
    Ok((Member::new(id, inc, st), c.p))
}

pub fn decode_header(k: CodecKind, b: &[u8]) -> Result<(Header<Id>, usize), String> {
    match k {
        CodecKind::Hand | CodecKind::HandDirty => hand_header(b),
        CodecKind::BincodeStd => bincode::serde::decode_from_slice(b, bin_std()).map_err(|e| e.to_string()),
        CodecKind::BincodeLegacy => {
            bincode::serde::decode_from_slice(b, bin_legacy()).map_err(|e| e.to_string())
        }
        CodecKind::Postcard => postcard::take_from_bytes::<Header<Id>>(b)
            .map(|(h, rest)| (h, b.len() - rest.len()))
            .map_err(|e| e.to_string()),
    }
}

pub fn decode_member(k: CodecKind, b: &[u8]) -> Result<(Member<Id>, usize), String> {
    match k {
        CodecKind::Hand | CodecKind::HandDirty => hand_member(b),
        CodecKind::BincodeStd => bincode::serde::decode_from_slice(b, bin_std()).map_err(|e| e.to_string()),
        CodecKind::BincodeLegacy => {
            bincode::serde::decode_from_slice(b, bin_legacy()).map_err(|e| e.to_string())
        }
        CodecKind::Postcard => postcard::take_from_bytes::<Member<Id>>(b)
            .map(|(h, rest)| (h, b.len() - rest.len()))
            .map_err(|e| e.to_string()),
    }
}

fn put_id(v: &mut Vec<u8>, id: &Id) {
    v.extend_from_slice(&id.addr.to_be_bytes());
    v.push(id.gen);
    v.push(id.pad_len() as u8);
    v.extend(std::iter::repeat(0xEE).take(id.pad_len()));
}

pub fn encode_header(k: CodecKind, h: &Header<Id>) -> Vec<u8> {
    match k {
        CodecKind::Hand | CodecKind::HandDirty => {
            let mut v = vec![];
            put_id(&mut v, &h.src);
            v.extend_from_slice(&h.src_incarnation.to_be_bytes());
            put_id(&mut v, &h.dst);
            let (code, id, nr) = crate::codecs::hand::kind_code(&h.message);
            v.push(code);
            if let Some(i) = id {
                put_id(&mut v, &i);
            }
            if let Some(n) = nr {
                v.push(n);
            }
            v
        }
        CodecKind::BincodeStd => bincode::serde::encode_to_vec(h, bin_std()).expect("encode"),
        CodecKind::BincodeLegacy => bincode::serde::encode_to_vec(h, bin_legacy()).expect("encode"),
        CodecKind::Postcard => {
            let mut buf = [0u8; 256];
            postcard::to_slice(h, &mut buf).expect("encode").to_vec()
        }
    }
}

pub fn encode_member(k: CodecKind, m: &Member<Id>) -> Vec<u8> {
    match k {
        CodecKind::Hand | CodecKind::HandDirty => {
            let mut v = vec![];
            put_id(&mut v, m.id());
            v.extend_from_slice(&m.incarnation().to_be_bytes());
            v.push(match m.state() {
                State::Alive => 0,
                State::Suspect => 1,
                State::Down => 2,
            });
            v
        }
        CodecKind::BincodeStd => bincode::serde::encode_to_vec(m, bin_std()).expect("encode"),
        CodecKind::BincodeLegacy => bincode::serde::encode_to_vec(m, bin_legacy()).expect("encode"),
        CodecKind::Postcard => {
            let mut buf = [0u8; 256];
            postcard::to_slice(m, &mut buf).expect("encode").to_vec()
        }
    }
}

/// Build a datagram. `members == None` ⇒ no member section at all.
pub fn build(k: CodecKind, h: &Header<Id>, members: Option<&[Member<Id>]>, items: &[Vec<u8>]) -> Vec<u8> {
    let mut v = encode_header(k, h);
    if let Some(ms) = members {
        v.extend_from_slice(&(ms.len() as u16).to_be_bytes());
        for m in ms {
            v.extend(encode_member(k, m));
        }
    }
    for it in items {
        v.extend_from_slice(&(it.len() as u16).to_be_bytes());
        v.extend_from_slice(it);
    }
    v
}

/// Parse a datagram according to the grammar in the statement of C07.
pub fn parse(k: CodecKind, b: &[u8]) -> Result<Parsed, String> {
    let (header, hl) = decode_header(k, b).map_err(|e| format!("header does not decode: {e}"))?;
    let mut p = hl;
    let mut members = None;
    let mut member_bytes = vec![];
    match header.message {
        Message::Announce | Message::TurnUndead => {
            if p != b.len() {
                return Err(format!(
                    "{} carries {} bytes after the header",
                    kind_name(&header.message),
                    b.len() - p
                ));
            }
        }
        Message::Broadcast => {}
        _ => {
            if p < b.len() {
                if b.len() - p < 2 {
                    return Err("one stray byte after the header".into());
                }
                let n = ((b[p] as usize) << 8) | b[p + 1] as usize;
                p += 2;
                let mut ms = Vec::with_capacity(n.min(1024));
                for i in 0..n {
                    let (m, l) = decode_member(k, &b[p..])
                        .map_err(|e| format!("member {i} of {n} does not decode at offset {p}: {e}"))?;
                    member_bytes.push(b[p..p + l].to_vec());
                    p += l;
                    ms.push(m);
                }
                members = Some(ms);
            }
        }
    }
    let members_end = p;
    let mut items = vec![];
    while p < b.len() {
        if b.len() - p < 3 {
            return Err(format!("tail: {} stray bytes where a custom item should start", b.len() - p));
        }
        let l = ((b[p] as usize) << 8) | b[p + 1] as usize;
        p += 2;
        if l == 0 {
            return Err("tail: empty custom item".into());
        }
        if b.len() - p < l {
            return Err(format!("tail: custom item length {l} exceeds the {} bytes left", b.len() - p));
        }
        items.push(b[p..p + l].to_vec());
        p += l;
    }
    Ok(Parsed { header, header_len: hl, members, member_bytes, members_end, items, len: b.len() })
}
