//! Small deterministic utilities: PRNG, hashing, duration helpers.
use std::hash::{Hash, Hasher};

/// SplitMix64. All harness randomness comes from this, seeded from
/// (VERIF_SEED, workload, case index); verdicts are functions of those.
#[derive(Clone, Debug)]
pub struct Rng64(pub u64);

impl Rng64 {
    pub fn new(seed: u64) -> Self {
        Rng64(seed)
    }
    /// Independent stream for (seed, a, b)
    pub fn derive(seed: u64, a: u64, b: u64) -> Self {
        let mut r = Rng64(seed ^ 0xA076_1D64_78BD_642F);
        let x = r.next();
        let mut r = Rng64(x ^ a.wrapping_mul(0xE703_7ED1_A0B4_28DB));
        let y = r.next();
        let mut r = Rng64(y ^ b.wrapping_mul(0x8EBC_6AF0_9C88_C6E3));
        r.next();
        r
    }
    pub fn next(&mut self) -> u64 {
        self.0 = self.0.wrapping_add(0x9E37_79B9_7F4A_7C15);
        let mut z = self.0;
        z = (z ^ (z >> 30)).wrapping_mul(0xBF58_476D_1CE4_E5B9);
        z = (z ^ (z >> 27)).wrapping_mul(0x94D0_49BB_1331_11EB);
        z ^ (z >> 31)
    }
    /// uniform in 0..n (n > 0)
    pub fn below(&mut self, n: u64) -> u64 {
        debug_assert!(n > 0);
        self.next() % n
    }
    pub fn usize(&mut self, n: usize) -> usize {
        self.below(n as u64) as usize
    }
    /// inclusive range
    pub fn range(&mut self, lo: u64, hi: u64) -> u64 {
        lo + self.below(hi - lo + 1)
    }
    /// true with probability num/den
    pub fn chance(&mut self, num: u64, den: u64) -> bool {
        self.below(den) < num
    }
    pub fn pick<'a, T>(&mut self, xs: &'a [T]) -> &'a T {
        &xs[self.usize(xs.len())]
    }
    pub fn shuffle<T>(&mut self, xs: &mut [T]) {
        for i in (1..xs.len()).rev() {
            let j = self.usize(i + 1);
            xs.swap(i, j);
        }
    }
    pub fn bytes(&mut self, n: usize) -> Vec<u8> {
        (0..n).map(|_| self.next() as u8).collect()
    }
}

/// Deterministic 64-bit fingerprint (SipHash with fixed keys).
pub fn fp<T: Hash>(t: &T) -> u64 {
    #[allow(deprecated)]
    let mut h = std::hash::SipHasher::new_with_keys(0x5eed, 0xf0ca);
    t.hash(&mut h);
    h.finish()
}

pub fn hex(b: &[u8]) -> String {
    let mut s = String::with_capacity(b.len() * 2);
    for x in b {
        s.push_str(&format!("{x:02x}"));
    }
    s
}

/// All permutations of 0..n (n small), Heap's algorithm.
pub fn permutations(n: usize) -> Vec<Vec<usize>> {
    fn rec(k: usize, a: &mut Vec<usize>, out: &mut Vec<Vec<usize>>) {
        if k <= 1 {
            out.push(a.clone());
            return;
        }
        for i in 0..k {
            rec(k - 1, a, out);
            if k % 2 == 0 {
                a.swap(i, k - 1);
            } else {
                a.swap(0, k - 1);
            }
        }
    }
    let mut a: Vec<usize> = (0..n).collect();
    let mut out = vec![];
    rec(n, &mut a, &mut out);
    out
}
