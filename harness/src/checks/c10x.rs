//! C10 / C05 with an identity whose conflict rule has *ties* among what renew()
//! can return: a generation counter that saturates at the top of its range
//! while a nonce keeps changing. `renew()` then yields an identity that differs
//! from the old one but does not win against it - neither "losing" nor
//! "identical" in the sense of the other renew policies, and just as unusable:
//! every peer discards it. The statement asks for a renewed identity that
//! *differs from and wins against* the old one, or Defunct.
//! Stand-alone (own identity type, bundled Postcard codec, own recording runtime).
use crate::ensure;
use crate::run::{Acc, Ctx, Verdict};
use crate::util::{fp, Rng64};
use bytes::BufMut;
use foca::{Codec, Config, Foca, Header, Identity, Member, Message, NoCustomBroadcast, Notification, OwnedNotification, PostcardCodec, Runtime, State, Timer};
use rand::{rngs::SmallRng, SeedableRng};
use serde::{Deserialize, Serialize};
use serde_json::json;
use std::time::Duration;

#[derive(Clone, Copy, Debug, PartialEq, Eq, Hash, Serialize, Deserialize)]
pub struct TId {
    addr: u16,
    generation: u8,
    nonce: u8,
}

impl Identity for TId {
    type Addr = u16;
    fn renew(&self) -> Option<Self> {
        Some(TId { addr: self.addr, generation: self.generation.saturating_add(1), nonce: self.nonce.wrapping_add(1) })
    }
    fn addr(&self) -> u16 {
        self.addr
    }
    fn win_addr_conflict(&self, adversary: &Self) -> bool {
        self.generation > adversary.generation
    }
}

#[derive(Default)]
struct Rt {
    sends: Vec<(TId, Vec<u8>)>,
    notes: Vec<OwnedNotification<TId>>,
    timers: Vec<Timer<TId>>,
}
impl Runtime<TId> for &mut Rt {
    fn notify(&mut self, n: Notification<'_, TId>) {
        self.notes.push(n.to_owned());
    }
    fn send_to(&mut self, to: TId, d: &[u8]) {
        self.sends.push((to, d.to_vec()));
    }
    fn submit_after(&mut self, t: Timer<TId>, _a: Duration) {
        self.timers.push(t);
    }
}

fn datagram(h: &Header<TId>, members: &[Member<TId>]) -> Vec<u8> {
    let mut c = PostcardCodec;
    let mut buf = Vec::new();
    c.encode_header(h, &mut buf).expect("encode header");
    if !matches!(h.message, Message::TurnUndead | Message::Announce) {
        buf.put_u16(members.len() as u16);
        for m in members {
            c.encode_member(m, &mut buf).expect("encode member");
        }
    }
    buf
}

pub fn tie_case(ctx: &Ctx, case: u64, acc: &mut Acc) -> Verdict {
    let mut r = Rng64::derive(ctx.seed, 0xC10E, case);
    let start_gen = *r.pick(&[0u8, 1, 200, 252, 253, 254, 255]);
    let mut me = TId { addr: 0, generation: start_gen, nonce: r.next() as u8 };
    let mut cfg = Config::simple();
    cfg.notify_down_members = r.chance(1, 2);
    let mut f: Foca<TId, PostcardCodec, SmallRng, NoCustomBroadcast> = Foca::new(me, cfg, SmallRng::seed_from_u64(r.next()), PostcardCodec);
    let peers: Vec<TId> = (1..=r.range(1, 3)).map(|a| TId { addr: a as u16, generation: r.below(3) as u8, nonce: 7 }).collect();
    let mut deaths = 0u64;
    let mut ties = 0u64;
    let mut renewals = 0u64;
    for step in 0..r.range(1, 5) {
        let mut rt = Rt::default();
        // (re)connect: knows the peers as alive
        let r0 = f.apply_many(peers.iter().map(|p| Member::new(*p, step as u16, State::Alive)), true, &mut rt);
        ensure!(r0.is_ok(), "C10/tie/apply-error", "apply_many returned {r0:?}");
        let mut rt = Rt::default();
        let how = r.below(4);
        let peer = peers[r.usize(peers.len())];
        let res = match how {
            0 => f.apply_many(std::iter::once(Member::new(me, 0, State::Down)), true, &mut rt),
            1 => f.apply_many(std::iter::once(Member::new(me, u16::MAX, State::Suspect)), true, &mut rt),
            2 => f.handle_data(&datagram(&Header { src: peer, src_incarnation: step as u16, dst: me, message: Message::TurnUndead }, &[]), &mut rt),
            _ => f.handle_data(&datagram(&Header { src: peer, src_incarnation: step as u16, dst: me, message: Message::Gossip }, &[Member::new(me, 3, State::Down)]), &mut rt),
        };
        ensure!(res.is_ok(), "C10/tie/error", "learning of its own death returned {res:?}");
        deaths += 1;
        let renewed = me.renew().filter(|n| *n != me && n.win_addr_conflict(&me));
        let rejoins: Vec<TId> = rt.notes.iter().filter_map(|n| if let OwnedNotification::Rejoin(x) = n { Some(*x) } else { None }).collect();
        let defuncts = rt.notes.iter().filter(|n| matches!(n, OwnedNotification::Defunct)).count();
        let now = *f.identity();
        let what = ["apply_many(Down(self))", "apply_many(Suspect(self, MAX))", "TurnUndead from an active member", "Gossip carrying Down(self)"][how as usize];
        match renewed {
            Some(n) => {
                ensure!(now == n && rejoins == vec![n] && defuncts == 0, "C10/tie/renewal", "{what} as {me:?}: expected Rejoin({n:?}); identity is {now:?}, notified Rejoin {rejoins:?} and {defuncts} Defunct");
                // the old identity is gossiped as Down under the new one
                for (_, d) in &rt.sends {
                    let mut b = &d[..];
                    let h: Header<TId> = PostcardCodec.decode_header(&mut b).map_err(|e| crate::run::V::new("C10/tie/harness", format!("{e:?}")))?;
                    ensure!(h.src == n || h.src == me, "C10/tie/src", "datagram sent as {:?} while being {me:?} -> {n:?}", h.src);
                }
                me = n;
                renewals += 1;
            }
            None => {
                ties += 1;
                ensure!(
                    now == me && rejoins.is_empty(),
                    "C10/renewed-identity-does-not-win",
                    "{what} as {me:?}: renew() yields {:?}, which differs from but does not win against it; the instance switched to {now:?} (Rejoin notified: {rejoins:?}) instead of becoming Defunct",
                    me.renew()
                );
                ensure!(defuncts == 1, "C10/tie/defunct", "{what} as {me:?} (no usable renewal): {defuncts} Defunct notifications");
                // never carries on as active under the dead identity: a Ping is not answered
                let mut rt2 = Rt::default();
                let _ = f.handle_data(&datagram(&Header { src: peer, src_incarnation: step as u16 + 1, dst: me, message: Message::Ping(9) }, &[]), &mut rt2);
                ensure!(rt2.sends.is_empty(), "C10/tie/dead-identity-answers", "defunct {me:?} answered a Ping with {} datagram(s)", rt2.sends.len());
                // the user revives it
                let rr = f.reuse_down_identity();
                ensure!(rr.is_ok(), "C10/tie/reuse", "reuse_down_identity returned {rr:?}");
            }
        }
    }
    acc.tally("tie_identity_histories", 1);
    acc.tally("tie_identity_deaths", deaths);
    acc.tally("tie_identity_renewals_that_win", renewals);
    acc.tally("tie_identity_renewals_that_tie", ties);
    if ties > 0 {
        acc.nontrivial(fp(&("tie", case, start_gen, deaths)));
    }
    acc.sample(|| json!({"workload": "tie", "start_generation": start_gen, "deaths": deaths, "renewals": renewals, "ties": ties}));
    Ok(())
}
