//! C08 extra workload: AccumulatingRuntime yields the very same effects, in
//! the same order, as a directly implemented Runtime (twin instances).
use crate::ensure;
use crate::ids::Id;
use crate::mon::Arm;
use crate::node::{dispatch, ek, Ev, Node, Res};
use crate::run::{Acc, Ctx, Verdict};
use crate::util::fp;
use crate::work::driver::Driver;
use foca::{AccumulatingRuntime, Timer};
use serde_json::json;
use std::panic::{catch_unwind, AssertUnwindSafe};
use std::time::Duration;

pub fn accrt_case(ctx: &Ctx, case: u64, acc: &mut Acc) -> Verdict {
    // base history from the driver (recording runtime), replayed on a twin that uses AccumulatingRuntime
    let mut scratch = Acc::default();
    let mut d = Driver::new(ctx, 0xACC, case, Arm::default());
    d.dup_timers = true;
    let mut twin: Node = Driver::new(ctx, 0xACC, case, Arm::default()).node;
    let mut art: AccumulatingRuntime<Id> = AccumulatingRuntime::new();
    let mut calls = 0u64;
    let mut effects = 0u64;
    for _ in 0..150 {
        let Some(rec) = d.step(&mut scratch)? else { break };
        if rec.res.is_panic() {
            acc.inconclusive += 1;
            return Ok(());
        }
        let mut nc = None;
        let f = &mut twin.f;
        let out = catch_unwind(AssertUnwindSafe(|| dispatch(f, &rec.op, &mut art, &mut nc)));
        let res2 = match out {
            Ok(Ok(None)) => Res::Ok,
            Ok(Ok(Some(b))) => Res::Bool(b),
            Ok(Err(e)) => Res::Err(ek(&e)),
            Err(_) => {
                acc.inconclusive += 1;
                return Ok(());
            }
        };
        ensure!(res2 == rec.res, "C08/accumulating-runtime-differs", "call {} returned {:?} with AccumulatingRuntime and {:?} with a direct Runtime", rec.op.name(), res2, rec.res);
        let sends: Vec<(Id, Vec<u8>)> = rec.evs.iter().filter_map(|e| if let Ev::Send { to, data } = e { Some((*to, data.clone())) } else { None }).collect();
        let timers: Vec<(Duration, Timer<Id>)> = rec.evs.iter().filter_map(|e| if let Ev::Sched { timer, after } = e { Some((*after, timer.clone())) } else { None }).collect();
        let notes: Vec<_> = rec.notes().cloned().collect();
        let mut s2 = vec![];
        while let Some((to, b)) = art.to_send() {
            s2.push((to, b.to_vec()));
        }
        let mut t2 = vec![];
        while let Some(x) = art.to_schedule() {
            t2.push(x);
        }
        let mut n2 = vec![];
        while let Some(x) = art.to_notify() {
            n2.push(x);
        }
        ensure!(art.backlog() == 0, "C08/accumulating-runtime-differs", "backlog() non-zero after draining");
        ensure!(s2 == sends, "C08/accumulating-runtime-differs", "{}: datagrams differ: accumulating {:?} vs direct {:?}", rec.op.name(), s2.len(), sends.len());
        ensure!(t2 == timers, "C08/accumulating-runtime-differs", "{}: timers differ: accumulating {:?} vs direct {:?}", rec.op.name(), t2, timers);
        ensure!(n2 == notes, "C08/accumulating-runtime-differs", "{}: notifications differ: accumulating {:?} vs direct {:?}", rec.op.name(), n2, notes);
        calls += 1;
        effects += (sends.len() + timers.len() + notes.len()) as u64;
    }
    acc.tally("accumulating_runtime_calls_compared", calls);
    acc.tally("accumulating_runtime_effects_compared", effects);
    if effects > 10 {
        acc.nontrivial(fp(&("accrt", case, calls, effects)));
    }
    acc.sample(|| json!({"workload": "accrt", "case": case, "calls": calls, "effects": effects}));
    Ok(())
}
