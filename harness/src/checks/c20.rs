//! C20 — bundled codecs round-trip exactly and fail cleanly (direct codec
//! workload, no Foca instance involved). Also run under Miri / ASan.
use crate::codecs::{bin_legacy, bin_std};
use crate::ensure;
use crate::ids::Id;
use crate::run::{Acc, Check, Ctx, Flav, Verdict, Workload, V};
use crate::util::{fp, Rng64};
use bytes::{Buf, BufMut};
use foca::{BincodeCodec, Codec, Header, Member, Message, PostcardCodec, State};
use serde::{Deserialize, Serialize};
use serde_json::json;
use std::fmt::Debug;
use std::net::{IpAddr, Ipv4Addr, Ipv6Addr, SocketAddr};
use std::panic::{catch_unwind, AssertUnwindSafe};

#[derive(Clone, Debug, PartialEq, Eq, Serialize, Deserialize)]
pub struct Fat {
    name: String,
    blob: Vec<u8>,
    n: u64,
    flag: Option<bool>,
}

trait GenId: Clone + Debug + PartialEq + Serialize + for<'de> Deserialize<'de> {
    fn gen(r: &mut Rng64) -> Self;
    const NAME: &'static str;
}
impl GenId for Id {
    fn gen(r: &mut Rng64) -> Self {
        Id::new(*r.pick(&[0u16, 1, 2, 255, 256, 65535, 12345]), *r.pick(&[0u8, 1, 127, 255]))
    }
    const NAME: &'static str = "Id(u16,u8,var-pad)";
}
impl GenId for SocketAddr {
    fn gen(r: &mut Rng64) -> Self {
        let port = *r.pick(&[0u16, 1, 80, 65535]);
        if r.chance(1, 2) {
            SocketAddr::new(IpAddr::V4(Ipv4Addr::from(r.next() as u32)), port)
        } else {
            SocketAddr::new(IpAddr::V6(Ipv6Addr::from(((r.next() as u128) << 64) | r.next() as u128)), port)
        }
    }
    const NAME: &'static str = "SocketAddr";
}
impl GenId for Fat {
    fn gen(r: &mut Rng64) -> Self {
        let nl = *r.pick(&[0usize, 1, 7, 40, 200]);
        let name: String = (0..nl).map(|_| *r.pick(&['a', 'Z', '0', 'é', '∑', ' '])).collect();
        let bl = *r.pick(&[0usize, 1, 16, 127, 128, 300]);
        Fat { name, blob: r.bytes(bl), n: *r.pick(&[0u64, 1, 250, 251, 65535, 65536, u64::MAX]), flag: *r.pick(&[None, Some(true), Some(false)]) }
    }
    const NAME: &'static str = "Fat{String,Vec<u8>,u64,Option<bool>}";
}

fn gen_message<T: GenId>(r: &mut Rng64) -> Message<T> {
    let nr = *r.pick(&[0u8, 1, 127, 128, 254, 255]);
    match r.below(11) {
        0 => Message::Ping(nr),
        1 => Message::Ack(nr),
        2 => Message::PingReq { target: T::gen(r), probe_number: nr },
        3 => Message::IndirectPing { origin: T::gen(r), probe_number: nr },
        4 => Message::IndirectAck { target: T::gen(r), probe_number: nr },
        5 => Message::ForwardedAck { origin: T::gen(r), probe_number: nr },
        6 => Message::Announce,
        7 => Message::Feed,
        8 => Message::Gossip,
        9 => Message::Broadcast,
        _ => Message::TurnUndead,
    }
}

fn gen_inc(r: &mut Rng64) -> u16 {
    *r.pick(&[0u16, 1, 127, 128, 250, 251, 255, 256, 16383, 16384, 65534, 65535])
}

trait Kind<T>: Sized + Clone + Debug + PartialEq {
    fn enc<C: Codec<T>>(&self, c: &mut C, b: impl BufMut) -> Result<(), C::Error>;
    fn dec<C: Codec<T>>(c: &mut C, b: impl Buf) -> Result<Self, C::Error>;
}
impl<T: Clone + Debug + PartialEq> Kind<T> for Header<T> {
    fn enc<C: Codec<T>>(&self, c: &mut C, b: impl BufMut) -> Result<(), C::Error> {
        c.encode_header(self, b)
    }
    fn dec<C: Codec<T>>(c: &mut C, b: impl Buf) -> Result<Self, C::Error> {
        c.decode_header(b)
    }
}
impl<T: Clone + Debug + PartialEq> Kind<T> for Member<T> {
    fn enc<C: Codec<T>>(&self, c: &mut C, b: impl BufMut) -> Result<(), C::Error> {
        c.encode_member(self, b)
    }
    fn dec<C: Codec<T>>(c: &mut C, b: impl Buf) -> Result<Self, C::Error> {
        c.decode_member(b)
    }
}

fn guarded<R>(what: &str, f: impl FnOnce() -> R) -> Result<R, V> {
    match catch_unwind(AssertUnwindSafe(f)) {
        Ok(r) => Ok(r),
        Err(_) => {
            let (loc, msg) = crate::node::take_last_panic().unwrap_or_default();
            Err(V::new("C20/panic", format!("{what} panicked at {loc}: {msg}")))
        }
    }
}

fn exercise<T: GenId, C: Codec<T>, K: Kind<T>>(codec_name: &str, c: &mut C, v: &K, r: &mut Rng64, acc: &mut Acc) -> Verdict
where
    C::Error: Debug,
{
    let ctx = format!("{codec_name}/{}", T::NAME);
    // (1) encode unbounded, append trailing bytes, decode, exact consumption
    let mut buf: Vec<u8> = Vec::new();
    guarded(&format!("{ctx} encode"), || v.enc(c, &mut buf))?.map_err(|e| V::new("C20/encode-failed", format!("{ctx}: encoding {v:?} into an unbounded buffer failed: {e:?}")))?;
    let len = buf.len();
    ensure!(len > 0, "C20/empty-encoding", "{ctx}: {v:?} encoded to nothing");
    let trail = r.usize(9);
    let mut with_tail = buf.clone();
    with_tail.extend(r.bytes(trail));
    let mut cur: &[u8] = &with_tail;
    let before = cur.remaining();
    let got = guarded(&format!("{ctx} decode"), || K::dec(c, &mut cur))?;
    match got {
        Ok(g) => {
            ensure!(g == *v, "C20/roundtrip-mismatch", "{ctx}: {v:?} decoded back as {g:?}");
            ensure!(
                before - cur.remaining() == len,
                "C20/consumed-wrong-length",
                "{ctx}: encoding is {len} bytes but decoding consumed {} (trailing {trail})",
                before - cur.remaining()
            );
        }
        Err(e) => return Err(V::new("C20/roundtrip-failed", format!("{ctx}: {v:?} does not decode back: {e:?}"))),
    }
    acc.tally("roundtrips", 1);
    // (2) every buffer size 0..=len (under Miri: every 5th, plus the ends)
    for s in 0..=len {
        if cfg!(miri) && s % 5 != 0 && s + 2 < len {
            continue;
        }
        let mut lim = Vec::new().limit(s);
        let res = guarded(&format!("{ctx} encode into {s}/{len} bytes"), || v.enc(c, &mut lim))?;
        let inner = lim.into_inner();
        ensure!(inner.len() <= s, "C20/wrote-past-limit", "{ctx}: wrote {} bytes into a {s}-byte buffer", inner.len());
        if s < len {
            ensure!(res.is_err(), "C20/short-buffer-accepted", "{ctx}: encoding {len} bytes into {s} reported success");
        } else {
            ensure!(res.is_ok() && inner == buf, "C20/exact-buffer-rejected", "{ctx}: encoding into an exactly sized buffer failed or differs");
        }
    }
    acc.tally("limit_sizes_tried", len as u64 + 1);
    // (3) every truncation decodes to a value or an error, never a panic
    for cut in 0..len {
        if cfg!(miri) && cut % 5 != 0 {
            continue;
        }
        let mut cur: &[u8] = &buf[..cut];
        let res = guarded(&format!("{ctx} decode truncation {cut}/{len}"), || K::dec(c, &mut cur))?;
        if res.is_ok() {
            acc.tally("truncations_that_still_decode", 1);
        }
    }
    acc.tally("truncations_tried", len as u64);
    // (4) mutations and random strings
    for _ in 0..6 {
        let mut m = buf.clone();
        match r.below(3) {
            0 => {
                for _ in 0..r.range(1, 4) {
                    let i = r.usize(m.len());
                    m[i] ^= 1 << r.below(8);
                }
            }
            1 => {
                let i = r.usize(m.len());
                m[i] = *r.pick(&[0xFFu8, 0xFE, 0xFD, 0xFC, 0xFB, 0x80, 0x00]);
                if r.chance(1, 2) && i + 1 < m.len() {
                    m[i + 1] = 0xFF;
                }
            }
            _ => {
                let n = r.usize(64);
                m = r.bytes(n);
            }
        }
        let mut cur: &[u8] = &m;
        let before = cur.remaining();
        let res = guarded(&format!("{ctx} decode of hostile bytes {}", crate::util::hex(&m[..m.len().min(48)])), || K::dec(c, &mut cur))?;
        ensure!(cur.remaining() <= before, "C20/cursor", "cursor grew");
        match res {
            Ok(_) => acc.tally("hostile_decoded_to_value", 1),
            Err(_) => acc.tally("hostile_rejected", 1),
        }
    }
    Ok(())
}

fn one_type<T: GenId>(r: &mut Rng64, acc: &mut Acc) -> Verdict {
    let h: Header<T> = Header { src: T::gen(r), src_incarnation: gen_inc(r), dst: T::gen(r), message: gen_message::<T>(r) };
    let m: Member<T> = Member::new(T::gen(r), gen_inc(r), *r.pick(&[State::Alive, State::Suspect, State::Down]));
    exercise::<T, _, _>("bincode-standard", &mut BincodeCodec(bin_std()), &h, r, acc)?;
    exercise::<T, _, _>("bincode-standard", &mut BincodeCodec(bin_std()), &m, r, acc)?;
    exercise::<T, _, _>("bincode-legacy", &mut BincodeCodec(bin_legacy()), &h, r, acc)?;
    exercise::<T, _, _>("bincode-legacy", &mut BincodeCodec(bin_legacy()), &m, r, acc)?;
    exercise::<T, _, _>("postcard", &mut PostcardCodec, &h, r, acc)?;
    exercise::<T, _, _>("postcard", &mut PostcardCodec, &m, r, acc)?;
    acc.tally(&format!("identity_type/{}", T::NAME), 1);
    acc.nontrivial(fp(&format!("{h:?}{m:?}")));
    acc.sample(|| json!({"workload": "codec", "header": format!("{h:?}"), "member": format!("{m:?}")}));
    Ok(())
}

pub fn codec_case(ctx: &Ctx, case: u64, acc: &mut Acc) -> Verdict {
    let mut r = Rng64::derive(ctx.seed, 0xC20, case);
    if cfg!(miri) {
        // the interpreter is ~4 orders of magnitude slower: one identity type per case, smaller values
        return match case % 2 {
            0 => one_type::<Id>(&mut r, acc),
            _ => one_type::<SocketAddr>(&mut r, acc),
        };
    }
    match case % 3 {
        0 => one_type::<Id>(&mut r, acc),
        1 => one_type::<SocketAddr>(&mut r, acc),
        _ => one_type::<Fat>(&mut r, acc),
    }
}

/// Through Foca: when a bundled codec runs out of space in the middle of a Feed (bincode writes partial
/// bytes first), the datagram must stay well-formed. Re-uses the packet-size sweep restricted to the
/// serde codecs; grammar violations are reported under this property.
fn through_foca(ctx: &Ctx, case: u64, acc: &mut Acc) -> Verdict {
    // sweep cases are (codec = case % 5, kind = (case / 5) % 11): pick serde codecs (2,3,4) and Feed (8) or Gossip (6)
    let codec = 2 + case % 3;
    let kind = if case % 2 == 0 { 8 } else { 6 };
    let sub = case / 6;
    let sweep_case = codec + 5 * (kind + 11 * sub);
    crate::work::sweep::PANIC_IS_VERDICT.with(|p| p.set(true));
    let r = crate::work::sweep::sweep_case(ctx, sweep_case, acc, crate::mon::Arm::only("C07"));
    crate::work::sweep::PANIC_IS_VERDICT.with(|p| p.set(false));
    match r {
        Ok(()) => Ok(()),
        Err(v) => Err(V::new(&v.rule.replace("C07/", "C20/through-foca/"), v.msg)),
    }
}

pub fn check() -> Check {
    Check {
        id: "C20",
        level: "exploration",
        rule: "for BincodeCodec (standard and legacy configs, 64 KiB limit) and PostcardCodec over three identity types (variable-length Id, SocketAddr, struct with String/Vec<u8>/u64/Option): random Header and Member values over every Message variant with boundary incarnations/probe numbers; (1) encode + trailing bytes + decode: equal value, exact consumption; (2) encoding into Limit buffers of EVERY size 0..=len; (3) decoding EVERY truncation; (4) bit-flipped, prefix-poisoned and random strings; all under catch_unwind. The thorough tier repeats a subset under Miri and AddressSanitizer. Through-Foca behaviour (encode failure in the middle of a Feed / a piggybacked section) is exercised by the packet-size sweep restricted to the serde codecs, with the independent grammar parser and a fresh peer as oracle. Distinct by value pair.",
        assumptions: &["bincode is given a 64 KiB byte limit (unbounded configs can request huge allocations on hostile length prefixes; allocation aborts are outside the crate's stated guarantees)"],
        required: &["roundtrips", "limit_sizes_tried", "truncations_tried", "hostile_rejected"],
        workloads: vec![
            Workload { name: "codec", f: codec_case, quick: 60_000, thorough: 1_500_000, flav: Flav::Both },
            Workload { name: "through_foca", f: through_foca, quick: 1_200, thorough: 30_000, flav: Flav::Checked },
        ],
        exhaustive: false,
        aggregate: None,
    }
}
