pub mod boundary;
pub mod c01;
pub mod c06;
pub mod c08x;
pub mod c10x;
pub mod c14;
pub mod c17;
pub mod c18;
pub mod c20;
pub mod simc;
pub mod tables;

use crate::run::Check;

pub fn all() -> Vec<Check> {
    vec![c01::check(), simc::c02(), simc::c03(), simc::c04(), simc::c05(), c06::check(), boundary::c07(), boundary::c08(), boundary::c09(), boundary::c10(), boundary::c11(), boundary::c12(), boundary::c13(), boundary::c15(), boundary::c16(), boundary::c19(), c14::check(), c17::check(), c18::check(), c20::check()]
}

pub fn get(id: &str) -> Option<Check> {
    all().into_iter().find(|c| c.id == id)
}
