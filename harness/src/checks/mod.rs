pub mod c01;

use crate::run::Check;

pub fn all() -> Vec<Check> {
    vec![c01::check()]
}

pub fn get(id: &str) -> Option<Check> {
    all().into_iter().find(|c| c.id == id)
}
