pub mod boundary;
pub mod c01;

use crate::run::Check;

pub fn all() -> Vec<Check> {
    vec![c01::check(), boundary::c07(), boundary::c08(), boundary::c09(), boundary::c10(), boundary::c13(), boundary::c19()]
}

pub fn get(id: &str) -> Option<Check> {
    all().into_iter().find(|c| c.id == id)
}
