//! C01 — membership knowledge is a join-semilattice.
use crate::bcast::HdlCfg;
use crate::codecs::CodecKind;
use crate::ensure;
use crate::gen;
use crate::ids::Id;
use crate::model::lattice::{MRec, MView};
use crate::node::{Cfg, Node, Op};
use crate::run::{Acc, Check, Ctx, Flav, Verdict, Workload};
use crate::util::{fp, permutations, Rng64};
use crate::wire;
use foca::{Header, Member, Message, State};
use serde_json::json;

const ME: Id = Id::new(0, 0);

fn fresh(rng_seed: u64) -> Node {
    fresh_with(rng_seed, true)
}

fn fresh_with(rng_seed: u64, tiny_ok: bool) -> Node {
    // the view must not depend on the packet size either: in a quarter of the instances some (or all) of the
    // members' encodings are longer than a whole packet (not when the instance will have to send: a refutation
    // that cannot be encoded legitimately aborts the batch)
    let mut cfg = Cfg::simple();
    if tiny_ok {
        match rng_seed % 8 {
            0 => cfg.mps = 8,
            1 => cfg.mps = 5 + (rng_seed / 8 % 6) as usize,
            _ => {}
        }
    }
    Node::new(ME, cfg, CodecKind::Hand, HdlCfg::disabled(), rng_seed)
}

/// news about the instance itself mixed into a batch (it cannot renew: it goes Defunct, or refutes): whatever it
/// does with them, the records of everybody else must come out the same
fn self_news(r: &mut Rng64) -> Member<Id> {
    match r.below(4) {
        0 => Member::new(ME, 0, State::Down),
        1 => Member::new(ME, u16::MAX, State::Suspect),
        2 => Member::new(ME, r.below(3) as u16, State::Suspect),
        _ => Member::new(ME, 3, State::Alive),
    }
}

fn view_of(n: &Node) -> Vec<(Id, u8, u16)> {
    MView::from_members(n.last.state.iter()).view()
}

fn model_of(us: &[Member<Id>]) -> MView {
    let mut m = MView::default();
    for u in us {
        m.apply(MRec::of(u));
    }
    m
}

/// apply one at a time, checking monotonicity of every record after each
fn apply_stepwise(n: &mut Node, us: &[Member<Id>], bcast: bool) -> Verdict {
    for u in us {
        let rec = n.call(Op::Apply(vec![u.clone()], bcast));
        ensure!(rec.res.is_ok(), "C01/apply-error", "apply_many({u:?}) returned {:?}", rec.res);
        // monotone: every address's record is >= what it was
        for old in &rec.pre.state {
            let Some(new) = rec.post.rec_for_addr(old.id().addr) else {
                return Err(crate::run::V::new(
                    "C01/record-vanished",
                    format!("record {old:?} disappeared while applying {u:?}"),
                ));
            };
            ensure!(
                MRec::of(old).le(&MRec::of(new)),
                "C01/backwards",
                "record moved backwards: {old:?} -> {new:?} while applying {u:?}"
            );
        }
    }
    Ok(())
}

fn check_view(n: &Node, model: &MView, what: &str, us: &[Member<Id>]) -> Verdict {
    let got = view_of(n);
    let want = model.view();
    ensure!(
        got == want,
        "C01/order-dependence",
        "{what}: view {got:?} differs from the order-independent join {want:?} of {us:?}"
    );
    ensure!(
        n.last.num_members == model.num_active(),
        "C01/num-members",
        "{what}: num_members {} but model has {} active",
        n.last.num_members,
        model.num_active()
    );
    Ok(())
}

fn self_reapply(n: &mut Node) -> Verdict {
    let own: Vec<Member<Id>> = n.last.state.clone();
    for bcast in [true, false] {
        let rec = n.call(Op::Apply(own.clone(), bcast));
        ensure!(rec.res.is_ok(), "C01/self-reapply", "re-applying own state returned {:?}", rec.res);
        ensure!(
            rec.evs.is_empty(),
            "C01/self-reapply",
            "re-applying own state (broadcast={bcast}) emitted {:?}",
            rec.evs
        );
        ensure!(
            rec.pre.state == rec.post.state && rec.pre.ub == rec.post.ub,
            "C01/self-reapply",
            "re-applying own state changed state or backlog: {:?}/{} -> {:?}/{}",
            rec.pre.state,
            rec.pre.ub,
            rec.post.state,
            rec.post.ub
        );
    }
    Ok(())
}

fn multiset(r: &mut Rng64) -> Vec<Member<Id>> {
    let n = r.range(1, 12) as usize;
    // a few addresses so that collisions are the norm
    let hi = r.range(1, 4) as u16;
    (0..n).map(|_| gen::update(r, 1, hi, 3)).collect()
}

fn perm_case(ctx: &Ctx, case: u64, acc: &mut Acc) -> Verdict {
    let mut r = Rng64::derive(ctx.seed, 0xC01, case);
    let us = multiset(&mut r);
    let model = model_of(&us);
    // model sanity: the join must itself be order independent
    {
        let mut rev = us.clone();
        rev.reverse();
        assert_eq!(model.view(), model_of(&rev).view(), "model not commutative");
    }
    let perms: Vec<Vec<usize>> = if us.len() <= 5 {
        permutations(us.len())
    } else {
        (0..24)
            .map(|_| {
                let mut p: Vec<usize> = (0..us.len()).collect();
                r.shuffle(&mut p);
                p
            })
            .collect()
    };
    let mut outcomes = 0u64;
    for (pi, p) in perms.iter().enumerate() {
        let mut seq: Vec<Member<Id>> = p.iter().map(|i| us[*i].clone()).collect();
        // random duplications
        if pi % 2 == 1 {
            let extra = r.range(1, 4);
            for _ in 0..extra {
                let d = seq[r.usize(seq.len())].clone();
                let at = r.usize(seq.len() + 1);
                seq.insert(at, d);
            }
        }
        // ... and, in a third of the deliveries, one or two pieces of news about the instance itself in between
        let mut with_self = 0u64;
        if r.chance(1, 3) {
            for _ in 0..r.range(1, 2) {
                let at = r.usize(seq.len() + 1);
                seq.insert(at, self_news(&mut r));
                with_self += 1;
            }
        }
        acc.tally("updates_about_the_instance_itself_mixed_in", with_self);
        let mut n = fresh_with(r.next(), with_self == 0);
        if n.cfg.mps < 100 {
            acc.tally("instances_with_packets_smaller_than_a_member", 1);
        }
        let bcast = r.chance(1, 2);
        match pi % 3 {
            0 => apply_stepwise(&mut n, &seq, bcast)?,
            1 => {
                // one batch
                let rec = n.call(Op::Apply(seq.clone(), bcast));
                ensure!(rec.res.is_ok(), "C01/apply-error", "apply_many returned {:?}", rec.res);
            }
            _ => {
                // random split into batches
                let mut i = 0;
                while i < seq.len() {
                    let j = (i + 1 + r.usize(3)).min(seq.len());
                    let rec = n.call(Op::Apply(seq[i..j].to_vec(), bcast));
                    ensure!(rec.res.is_ok(), "C01/apply-error", "apply_many returned {:?}", rec.res);
                    i = j;
                }
            }
        }
        check_view(&n, &model, "permutation", &seq)?;
        if pi == 0 {
            self_reapply(&mut n)?;
        }
        outcomes += 1;
    }
    acc.tally("permutations_applied", outcomes);
    // delivery through datagrams from a third party that is not in the domain
    {
        let sender = Id::new(9, 0);
        let mut n = fresh_with(r.next(), false);
        let mut seq = us.clone();
        r.shuffle(&mut seq);
        let mut i = 0;
        while i < seq.len() {
            let j = (i + 1 + r.usize(4)).min(seq.len());
            let h = Header { src: sender, src_incarnation: 0, dst: ME, message: Message::Gossip };
            let d = wire::build(CodecKind::Hand, &h, Some(&seq[i..j]), &[]);
            let rec = n.call(Op::Data(d));
            ensure!(rec.res.is_ok(), "C01/apply-error", "handle_data(gossip) returned {:?}", rec.res);
            i = j;
        }
        let mut m2 = model.clone();
        m2.apply(MRec { id: sender, inc: 0, st: State::Alive });
        check_view(&n, &m2, "via datagrams", &seq)?;
        acc.tally("datagram_deliveries", 1);
    }
    // non-trivial: some address receives >= 2 distinct updates
    let mut per_addr = std::collections::BTreeMap::<u16, std::collections::BTreeSet<(u8, u16, u8)>>::new();
    for u in &us {
        per_addr.entry(u.id().addr).or_default().insert((
            u.id().gen,
            u.incarnation(),
            crate::node::st_code(u.state()),
        ));
    }
    if per_addr.values().any(|s| s.len() >= 2) {
        let mut key: Vec<_> = us.iter().map(|u| (*u.id(), u.incarnation(), crate::node::st_code(u.state()))).collect();
        key.sort();
        acc.nontrivial(fp(&key));
    }
    if per_addr.values().any(|s| s.iter().map(|x| x.0).collect::<std::collections::BTreeSet<_>>().len() >= 2) {
        acc.tally("multisets_with_address_conflict", 1);
    }
    acc.sample(|| json!({"workload": "perm", "updates": format!("{us:?}"), "join": format!("{:?}", model.view()), "permutations": perms.len()}));
    Ok(())
}

/// Reduced domain for the exhaustive part
fn reduced_domain() -> Vec<Member<Id>> {
    let mut v = vec![];
    for addr in [1u16, 2] {
        for gen in [0u8, 1] {
            for inc in [0u16, 1, u16::MAX] {
                for st in gen::STATES {
                    v.push(Member::new(Id::new(addr, gen), inc, st));
                }
            }
        }
    }
    v
}

/// case = index of the first element; enumerates every ordered tuple of
/// length `len` starting with it (ordered tuples cover every permutation and
/// multiplicity of every multiset of that size).
fn exh(len: usize, ctx: &Ctx, case: u64, acc: &mut Acc) -> Verdict {
    let dom = reduced_domain();
    let d = dom.len();
    let first = (case as usize) % d;
    let mut idx = vec![0usize; len];
    idx[0] = first;
    let mut r = Rng64::derive(ctx.seed, 0xE01, case);
    let mut count = 0u64;
    loop {
        let us: Vec<Member<Id>> = idx.iter().map(|i| dom[*i].clone()).collect();
        let model = model_of(&us);
        let mut n = fresh(r.next());
        if count % 7 == 0 {
            apply_stepwise(&mut n, &us, true)?;
        } else {
            let rec = n.call(Op::Apply(us.clone(), count % 2 == 0));
            ensure!(rec.res.is_ok(), "C01/apply-error", "apply_many returned {:?}", rec.res);
        }
        check_view(&n, &model, "exhaustive tuple", &us)?;
        count += 1;
        if idx[1..].iter().collect::<std::collections::BTreeSet<_>>().len() > 1 || idx[0] != idx[1] {
            acc.nontrivial(fp(&idx));
        }
        // next tuple (positions 1..)
        let mut p = len - 1;
        loop {
            if p == 0 {
                acc.tally(&format!("exhaustive_tuples_len{len}"), count);
                acc.exhaustive_parts.insert(format!(
                    "all ordered {len}-tuples over 2 addresses x 2 generations x incarnations {{0,1,MAX}} x 3 states ({}^{len})",
                    d
                ));
                if case == 0 {
                    acc.sample(|| json!({"workload": format!("exh{len}"), "domain_size": d, "last_tuple": format!("{us:?}")}));
                }
                return Ok(());
            }
            idx[p] += 1;
            if idx[p] < d {
                break;
            }
            idx[p] = 0;
            p -= 1;
        }
    }
}

fn exh3(ctx: &Ctx, case: u64, acc: &mut Acc) -> Verdict {
    exh(3, ctx, case, acc)
}
fn exh4(ctx: &Ctx, case: u64, acc: &mut Acc) -> Verdict {
    exh(4, ctx, case, acc)
}

/// Build a reachable state through random public operations
fn random_history(n: &mut Node, r: &mut Rng64) {
    let steps = r.range(1, 14);
    for _ in 0..steps {
        if r.chance(2, 3) {
            let k = r.range(1, 3);
            let us: Vec<_> = (0..k).map(|_| gen::update(r, 1, 5, 3)).collect();
            let _ = n.call(Op::Apply(us, r.chance(1, 2)));
        } else {
            let src = Id::new(r.range(1, 5) as u16, r.below(4) as u8);
            let h = Header { src, src_incarnation: gen::inc(r), dst: n.id(), message: Message::Gossip };
            let k = r.below(3);
            let us: Vec<_> = (0..k).map(|_| gen::update(r, 1, 5, 3)).collect();
            let _ = n.call(Op::Data(wire::build(CodecKind::Hand, &h, Some(&us), &[])));
        }
    }
}

fn exchange_case(ctx: &Ctx, case: u64, acc: &mut Acc) -> Verdict {
    let mut r = Rng64::derive(ctx.seed, 0xC01E, case);
    // own addresses 6 and 7 are outside the update domain 1..=5
    let mut a = Node::new(Id::new(6, 0), Cfg::simple(), CodecKind::Hand, HdlCfg::disabled(), r.next());
    let mut b = Node::new(Id::new(7, 0), Cfg::simple(), CodecKind::Hand, HdlCfg::disabled(), r.next());
    random_history(&mut a, &mut r);
    random_history(&mut b, &mut r);
    let (sa, sb) = (a.last.state.clone(), b.last.state.clone());
    let a_first = r.chance(1, 2);
    if a_first {
        let _ = b.call(Op::Apply(a.last.state.clone(), r.chance(1, 2)));
        let _ = a.call(Op::Apply(b.last.state.clone(), r.chance(1, 2)));
    } else {
        let _ = a.call(Op::Apply(b.last.state.clone(), r.chance(1, 2)));
        let _ = b.call(Op::Apply(a.last.state.clone(), r.chance(1, 2)));
    }
    let third = |n: &Node| -> Vec<(Id, u8, u16)> {
        MView::from_members(n.last.state.iter().filter(|m| m.id().addr != 6 && m.id().addr != 7)).view()
    };
    let (va, vb) = (third(&a), third(&b));
    ensure!(
        va == vb,
        "C01/exchange-disagreement",
        "after a two-way full-state exchange the instances disagree on third parties: {va:?} vs {vb:?} (before: {sa:?} / {sb:?})"
    );
    // and both equal the join of the two prior states
    let mut m = MView::default();
    for x in sa.iter().chain(sb.iter()).filter(|m| m.id().addr != 6 && m.id().addr != 7) {
        m.apply(MRec::of(x));
    }
    ensure!(va == m.view(), "C01/exchange-not-join", "exchange result {va:?} is not the join {:?}", m.view());
    self_reapply(&mut a)?;
    acc.tally("exchanges", 1);
    if !sa.is_empty() && !sb.is_empty() && sa != sb {
        acc.nontrivial(fp(&(format!("{sa:?}"), format!("{sb:?}"))));
    }
    acc.sample(|| json!({"workload": "exchange", "a_before": format!("{sa:?}"), "b_before": format!("{sb:?}"), "agreed": format!("{va:?}")}));
    Ok(())
}

/// "Down is final until the member is forgotten": one instance, a history of updates interleaved with the
/// forget-timers the instance itself scheduled (each handed back once, at any later point - also after the
/// address was taken over by another generation and that one went Down in turn). Sequential model: the join,
/// plus `forget(id)` removing the record iff it is Down and names exactly `id`. The view is compared after every
/// step; a record may only disappear in the step that hands back the forget-timer of exactly its identity.
fn forget_case(ctx: &Ctx, case: u64, acc: &mut Acc) -> Verdict {
    let mut r = Rng64::derive(ctx.seed, 0xC01F, case);
    let mut n = fresh(r.next());
    let mut model = MView::default();
    let mut timers: Vec<Id> = vec![];
    let steps = r.range(6, 40);
    let hi = r.range(1, 3) as u16;
    let mut forgotten = 0u64;
    let mut rejoined = 0u64;
    let mut stale_forgets = 0u64;
    let mut was_forgotten: std::collections::BTreeSet<Id> = Default::default();
    for _ in 0..steps {
        let fire = !timers.is_empty() && r.chance(1, 3);
        let (rec, removed) = if fire {
            let id = timers.swap_remove(r.usize(timers.len()));
            let rec = n.call(Op::Timer(foca::Timer::RemoveDown(id)));
            ensure!(rec.res.is_ok(), "C01/apply-error", "handle_timer(RemoveDown({id:?})) returned {:?}", rec.res);
            let hit = model.0.get(&id.addr).is_some_and(|m| m.id == id && m.st == State::Down);
            if hit {
                model.0.remove(&id.addr);
                forgotten += 1;
                was_forgotten.insert(id);
            } else {
                stale_forgets += 1;
            }
            (rec, if hit { Some(id) } else { None })
        } else {
            // Down-heavy mix so that forgetting and re-learning actually happen
            let mut u = gen::update(&mut r, 1, hi, 3);
            if r.chance(1, 3) {
                u = Member::new(*u.id(), u.incarnation(), State::Down);
            }
            let rec = n.call(Op::Apply(vec![u.clone()], r.chance(1, 2)));
            ensure!(rec.res.is_ok(), "C01/apply-error", "apply_many({u:?}) returned {:?}", rec.res);
            let before = model.0.get(&u.id().addr).copied();
            model.apply(MRec::of(&u));
            if before.is_none() && was_forgotten.contains(u.id()) && u.state() != State::Down {
                rejoined += 1;
            }
            (rec, None)
        };
        for (t, _) in rec.scheds() {
            if let foca::Timer::RemoveDown(id) = t {
                timers.push(*id);
            }
        }
        for old in &rec.pre.state {
            match rec.post.rec_for_addr(old.id().addr) {
                None => ensure!(
                    removed == Some(*old.id()) && old.state() == State::Down,
                    "C01/record-vanished",
                    "record {old:?} disappeared in {} (forget-timer handed back: {:?})",
                    rec.op.name(),
                    match &rec.op {
                        Op::Timer(t) => format!("{t:?}"),
                        _ => "none".into(),
                    }
                ),
                Some(new) => ensure!(MRec::of(old).le(&MRec::of(new)), "C01/backwards", "record moved backwards: {old:?} -> {new:?} in {}", rec.op.name()),
            }
        }
        let got = view_of(&n);
        ensure!(
            got == model.view(),
            "C01/forget-model-mismatch",
            "after {} the view is {got:?} but the sequential model (join + forget of exactly the named Down identity) gives {:?}",
            rec.op.name(),
            model.view()
        );
        ensure!(n.last.num_members == model.num_active(), "C01/num-members", "num_members {} but model has {} active", n.last.num_members, model.num_active());
    }
    acc.tally("forget_histories", 1);
    acc.tally("records_forgotten_by_their_timer", forgotten);
    acc.tally("forget_timers_without_effect", stale_forgets);
    acc.tally("identities_back_after_being_forgotten", rejoined);
    if forgotten > 0 {
        acc.nontrivial(fp(&("forget", case, forgotten, stale_forgets, rejoined)));
    }
    acc.sample(|| json!({"workload": "forget", "steps": steps, "forgotten": forgotten, "forget_timers_without_effect": stale_forgets, "rejoined_after_forget": rejoined}));
    Ok(())
}

/// 'firsthand': the precedence order also binds what an instance learns first-hand. Single-instance histories mix
/// told updates (apply_many) with datagrams whose *header* is itself evidence (sender alive at the incarnation it
/// states) and whose payload is further updates. No timer is ever handed back, so no record may vanish, every
/// record may only move forward, and - whenever the sender's identity is the one on record afterwards - the view
/// must be exactly the join of the previous view, Alive(sender, stated incarnation) and (sender still active) the
/// payload. A suspicion is therefore lifted only by a strictly higher incarnation, never by mere traffic.
fn firsthand_case(ctx: &Ctx, case: u64, acc: &mut Acc) -> Verdict {
    let mut r = Rng64::derive(ctx.seed, 0xC01D, case);
    let mut n = fresh_with(r.next(), false);
    let mut model = MView::default();
    let steps = r.range(6, 30);
    let hi = r.range(1, 4) as u16;
    let (mut heard_from_suspect_same_inc, mut exact, mut from_down, mut superseded_src) = (0u64, 0u64, 0u64, 0u64);
    for _ in 0..steps {
        let rec;
        let mut judged_exact = true;
        if r.chance(2, 5) {
            let mut u = gen::update(&mut r, 1, hi, 2);
            if r.chance(1, 2) {
                u = Member::new(*u.id(), gen::small_inc(&mut r), State::Suspect);
            }
            rec = n.call(Op::Apply(vec![u.clone()], r.chance(1, 2)));
            ensure!(rec.res.is_ok(), "C01/apply-error", "apply_many({u:?}) returned {:?}", rec.res);
            model.apply(MRec::of(&u));
        } else {
            // the sender: preferably somebody on record, at the recorded incarnation or around it
            let known: Vec<MRec> = model.0.values().copied().collect();
            let (src, inc) = if !known.is_empty() && r.chance(3, 4) {
                let k = known[r.usize(known.len())];
                let inc = match r.below(4) {
                    0 => k.inc.saturating_sub(1),
                    1 => k.inc.saturating_add(1),
                    _ => k.inc,
                };
                (if r.chance(1, 6) { Id::new(k.id.addr, r.below(3) as u8) } else { k.id }, inc)
            } else {
                (Id::new(r.range(1, hi as u64 + 1) as u16, r.below(3) as u8), gen::small_inc(&mut r))
            };
            let message = match r.below(5) {
                0 => Message::Ping(r.below(4) as u8),
                1 => Message::Announce,
                _ => Message::Gossip,
            };
            let k = if message == Message::Announce { 0 } else { r.below(3) };
            let us: Vec<_> = (0..k).map(|_| gen::update(&mut r, 1, hi, 2)).collect();
            let h = Header { src, src_incarnation: inc, dst: n.id(), message: message.clone() };
            let d = wire::build(CodecKind::Hand, &h, if message == Message::Announce { None } else { Some(&us) }, &[]);
            if model.0.get(&src.addr).is_some_and(|m| m.id == src && m.st == State::Suspect && m.inc == inc) {
                heard_from_suspect_same_inc += 1;
            }
            rec = n.call(Op::Data(d));
            if !rec.res.is_ok() {
                judged_exact = false;
            } else {
                model.apply(MRec { id: src, inc, st: State::Alive });
                match model.0.get(&src.addr).copied() {
                    Some(m) if m.id == src && m.active() => {
                        for u in &us {
                            model.apply(MRec::of(u));
                        }
                    }
                    Some(m) if m.id == src => from_down += 1,
                    _ => {
                        // a superseded generation talking: whether its payload counts is C09's business
                        superseded_src += 1;
                        judged_exact = false;
                    }
                }
            }
        }
        for old in &rec.pre.state {
            match rec.post.rec_for_addr(old.id().addr) {
                None => ensure!(false, "C01/record-vanished", "record {old:?} disappeared in {} although no timer was handed back", rec.op.name()),
                Some(new) => ensure!(
                    MRec::of(old).le(&MRec::of(new)),
                    "C01/backwards",
                    "record moved backwards: {old:?} -> {new:?} in {} ({})",
                    rec.op.name(),
                    match &rec.op {
                        Op::Data(d) => format!("datagram {:?}", wire::parse(CodecKind::Hand, d).map(|p| format!("{:?}", p.header))),
                        _ => "told".into(),
                    }
                ),
            }
        }
        if judged_exact {
            let got = view_of(&n);
            ensure!(
                got == model.view(),
                "C01/firsthand-model-mismatch",
                "after {} the view is {got:?} but the join of the previous view, the header's evidence and the accepted payload is {:?}",
                rec.op.name(),
                model.view()
            );
            exact += 1;
        } else {
            model = MView::from_members(n.last.state.iter());
        }
    }
    acc.tally("firsthand_histories", 1);
    acc.tally("datagrams_from_a_suspect_at_the_suspected_incarnation", heard_from_suspect_same_inc);
    acc.tally("firsthand_steps_compared_with_the_join", exact);
    acc.tally("datagrams_from_a_down_sender", from_down);
    acc.tally("datagrams_from_a_superseded_generation", superseded_src);
    if heard_from_suspect_same_inc > 0 {
        acc.nontrivial(fp(&("firsthand", case, heard_from_suspect_same_inc, exact)));
    }
    acc.sample(|| json!({"workload": "firsthand", "steps": steps, "from_suspect_same_incarnation": heard_from_suspect_same_inc, "steps_compared": exact}));
    Ok(())
}

pub fn check() -> Check {
    Check {
        id: "C01",
        level: "exploration",
        rule: "random multisets of 1..=12 updates over addresses 1..=4 x generations 0..=3 x incarnations {0,1,2,3,MAX-2,MAX-1,MAX}+uniform x 3 states, each applied to fresh instances in every permutation (|U|<=5) or 24 random ones, with duplications, batch splits, do_broadcast on/off and through Gossip datagrams, compared with an executable join model; all ordered 3- (and 4-) tuples over a 36-update reduced domain; two-way full-state exchanges between instances with independent random histories. Non-trivial: some address receives >=2 distinct updates (perm), tuple not constant (exh), both prior states non-empty and different (exchange); distinct by multiset / tuple / state pair. 'forget': single-instance histories of updates interleaved with the forget-timers the instance itself scheduled (handed back at any later point), compared after every step with a sequential model (join + forget of exactly the named Down identity); a record may only disappear in the step that hands back the forget-timer of exactly its identity. A quarter of the instances use packets smaller than a member's encoding; a third of the deliveries have updates about the instance itself mixed in. 'firsthand': single-instance histories mixing told updates with datagrams (Gossip/Ping/Announce) from senders on record at, below and above the recorded incarnation: the header is itself evidence (Alive at the stated incarnation), so every record may only move forward, none may vanish (no timer is handed back) and, whenever the sender's identity is the one on record afterwards, the view must equal the join of previous view, header evidence and (sender active) payload - a suspicion is lifted only by a strictly higher incarnation, never by traffic.",
        assumptions: &[
            "Identity::win_addr_conflict is a total order on identities sharing an address (harness identity: higher generation wins)",
            "own-address updates are excluded here (C09/C10 own them)",
        ],
        required: &["permutations_applied", "exchanges", "exhaustive_tuples_len3", "records_forgotten_by_their_timer", "forget_timers_without_effect", "identities_back_after_being_forgotten", "datagrams_from_a_suspect_at_the_suspected_incarnation", "firsthand_steps_compared_with_the_join"],
        workloads: vec![
            Workload { name: "perm", f: perm_case, quick: 40_000, thorough: 1_200_000, flav: Flav::Checked },
            Workload { name: "exh3", f: exh3, quick: 36, thorough: 36, flav: Flav::Checked },
            Workload { name: "exh4", f: exh4, quick: 0, thorough: 36, flav: Flav::Checked },
            Workload { name: "exchange", f: exchange_case, quick: 100_000, thorough: 2_000_000, flav: Flav::Checked },
            Workload { name: "forget", f: forget_case, quick: 100_000, thorough: 2_000_000, flav: Flav::Checked },
            Workload { name: "firsthand", f: firsthand_case, quick: 100_000, thorough: 2_000_000, flav: Flav::Checked },
        ],
        exhaustive: false,
        aggregate: None,
    }
}
