//! C06 — foca never panics on any input, schedule or configuration.
//! Every call runs under catch_unwind (node.rs); shards are child processes,
//! so an abort shows as a dead shard. Runs in the `checked` flavour (debug
//! assertions + overflow checks live) and the `plain` one (release).
use crate::bcast::make_item;
use crate::ensure;
use crate::ids::Id;
use crate::mon::Arm;
use crate::node::{CallRec, Cfg, Node, Op, Res};
use crate::run::{Acc, Check, Ctx, Flav, Tier, Verdict, Workload, V};
use crate::util::{fp, Rng64};
use crate::wire;
use crate::work::chaos;
use crate::work::driver::Driver;
use foca::{Config, Header, Member, Message, State, Timer};
use serde_json::json;
use std::num::NonZeroU32;
use std::panic::{catch_unwind, AssertUnwindSafe};

/// Turn a caught panic into the C06 verdict. Panics raised inside the
/// harness's own user-side code (codec, handler, identity) are harness bugs.
pub fn panic_verdict(rec: &CallRec) -> Verdict {
    if let Res::Panic(loc, msg) = &rec.res {
        if loc.contains("/verif/harness/") || loc.starts_with("src/") {
            return Err(V::new("HARNESS/panic-in-user-side-code", format!("{loc}: {msg}")));
        }
        let short = loc.rsplit('/').next().unwrap_or(loc);
        return Err(V::new(&format!("C06/panic@{short}"), format!("{} panicked at {loc}: {msg}", rec.op.name())));
    }
    Ok(())
}

fn legal_cfg(r: &mut Rng64) -> Cfg {
    let p = *r.pick(&[2u64, 1_000, 1_500_000, 5_000_000]);
    let rr = *r.pick(&[0u64, 1, p / 3, p - 1]);
    let per = |r: &mut Rng64| {
        if r.chance(1, 2) {
            Some((*r.pick(&[0u64, 1, 200_000, 30_000_000]), *r.pick(&[1usize, 2, 3, 50])))
        } else {
            None
        }
    };
    Cfg {
        p,
        r: rr,
        k: *r.pick(&[1usize, 2, 3, 7, 16]),
        tx: *r.pick(&[1u8, 2, 10, 100, 255]),
        s2d: *r.pick(&[0u64, 1, 3_000_000, u32::MAX as u64 * 1000]),
        rda: *r.pick(&[0u64, 1, 1_000_000, 86_400_000_000]),
        mps: *r.pick(&[1usize, 2, 3, 10, 20, 30, 48, 64, 100, 500, 1400, 65_535, 65_536, 100_000, 200_000]),
        notify_down: r.chance(1, 2),
        pa: per(r),
        pad: per(r),
        pg: per(r),
    }
}

fn crafted_timer(d: &mut Driver) -> Timer<Id> {
    let cur = d.node.last.snap.timer_token;
    let tok = match d.r.below(4) {
        0 => cur,
        1 => cur.wrapping_add(1),
        2 => cur.wrapping_sub(1),
        _ => d.r.next() as u8,
    };
    let me = d.me();
    let id = match d.r.below(6) {
        0 => me,
        1 => Id::new(me.addr, d.r.below(4) as u8),
        _ => d.known_or_random_peer(),
    };
    match d.r.below(7) {
        0 => Timer::ProbeRandomMember(tok),
        1 => Timer::SendIndirectProbe { probed_id: id, token: tok },
        2 => Timer::ChangeSuspectToDown { member_id: id, incarnation: *d.r.pick(&[0u16, 1, 2, u16::MAX]), token: tok },
        3 => Timer::PeriodicAnnounce(tok),
        4 => Timer::PeriodicAnnounceDown(tok),
        5 => Timer::PeriodicGossip(tok),
        _ => Timer::RemoveDown(id),
    }
}

/// A structurally plausible datagram whose count / length fields lie.
fn lying_datagram(d: &mut Driver) -> Vec<u8> {
    let me = d.me();
    let src = d.known_or_random_peer();
    let msg = d.craft_message();
    let h = Header { src, src_incarnation: *d.r.pick(&[0u16, 1, u16::MAX]), dst: me, message: msg };
    let mut v = wire::encode_header(d.node.codec, &h);
    let present = d.r.below(3);
    let claimed: u16 = *d.r.pick(&[0u16, 1, 2, 255, 65535]);
    v.extend_from_slice(&claimed.to_be_bytes());
    for _ in 0..present {
        let m = d.craft_update();
        v.extend(wire::encode_member(d.node.codec, &m));
    }
    match d.r.below(4) {
        0 => {}
        1 => v.extend_from_slice(&[0, 0]),                // empty item
        2 => v.extend_from_slice(&[0xFF, 0xFF, 1, 2, 3]), // item longer than what is left
        _ => {
            let it = d.next_item();
            v.extend_from_slice(&(it.len() as u16).to_be_bytes());
            v.extend(it);
        }
    }
    v
}

#[derive(Clone, Copy, PartialEq)]
enum Mode {
    /// everything, including set_config with another packet size
    Full,
    /// no set_config, no oversize items: keeps other panic sites reachable while one is still present
    Plain,
    /// large packets and items around the u16 length-prefix boundary
    BigItems,
}

fn fuzz(ctx: &Ctx, case: u64, acc: &mut Acc, mode: Mode) -> Verdict {
    fuzz_armed(ctx, case, acc, mode, Arm::default())
}

/// The large-packet / large-item histories under another check's monitors (C07, C16: in a release build an
/// item above u16::MAX shows as a corrupted datagram rather than a panic).
pub fn big_items_case(ctx: &Ctx, case: u64, acc: &mut Acc, arm: Arm) -> Verdict {
    fuzz_armed(ctx, case, acc, Mode::BigItems, arm)
}

fn fuzz_armed(ctx: &Ctx, case: u64, acc: &mut Acc, mode: Mode, arm: Arm) -> Verdict {
    let mut d = Driver::new(ctx, 0xC06 + mode as u64 * 7919, case, arm);
    d.dup_timers = true;
    // replace the instance by one with an arbitrary legal configuration
    let mut cfg = legal_cfg(&mut d.r);
    if mode == Mode::BigItems {
        cfg.mps = *d.r.pick(&[65_535usize, 65_600, 100_000, 200_000]);
        cfg.k = 2;
    }
    let hcfg = if mode == Mode::BigItems { crate::bcast::HdlCfg::simple() } else { d.node.hcfg };
    let me = d.node.id();
    let codec = d.node.codec;
    d.node = Node::new(me, cfg, codec, hcfg, d.r.next());
    d.watch = crate::mon::Watch::new(codec, arm, false, hcfg);
    let steps = if cfg!(miri) { 30 } else if mode == Mode::BigItems { 40 } else { 250 };
    let mut calls = 0u64;
    for _ in 0..steps {
        if d.node.poisoned {
            break;
        }
        let c = d.r.below(100);
        let rec = if c < 12 {
            let t = crafted_timer(&mut d);
            d.exec(Op::Timer(t), acc)?
        } else if c < 22 {
            let n = match d.r.below(4) {
                0 => d.r.usize(8),
                1 => d.r.usize(64),
                2 => d.node.cfg.mps.min(4096) + d.r.usize(9),
                _ => d.r.usize(d.node.cfg.mps.min(2048) + 1),
            };
            let b = d.r.bytes(n);
            d.exec(Op::Data(b), acc)?
        } else if c < 32 {
            let b = lying_datagram(&mut d);
            d.exec(Op::Data(b), acc)?
        } else if c < 38 && mode == Mode::Full {
            let mut c2 = legal_cfg(&mut d.r);
            // mostly keep what set_config refuses to change, so that the new values stick
            if d.r.chance(4, 5) {
                c2.p = d.node.cfg.p;
                c2.r = d.node.cfg.r;
                if d.node.cfg.pa.is_none() {
                    c2.pa = None;
                }
                if d.node.cfg.pad.is_none() {
                    c2.pad = None;
                }
                if d.node.cfg.pg.is_none() {
                    c2.pg = None;
                }
            }
            d.exec(Op::SetConfig(c2), acc)?
        } else if c < 44 && mode != Mode::Plain {
            let mps = d.node.cfg.mps;
            let n = *d.r.pick(&[0usize, 1, 6, 7, mps.saturating_sub(1), mps, mps + 1, 65_535, 65_536, 70_000]);
            d.item_tag += 1;
            let it = make_item(d.item_tag, d.r.below(4) as u8, d.r.below(4) as u8, n, 0x77);
            let it = if n < 6 { it[..n].to_vec() } else { it };
            d.exec(Op::AddBroadcast(it), acc)?
        } else if c < 50 && mode == Mode::BigItems {
            // make sure somebody is there to gossip to
            let p = d.peer();
            d.exec(Op::Apply(vec![Member::new(p, 0, State::Alive)], true), acc)?;
            d.exec(Op::Gossip, acc)?
        } else {
            match d.step(acc)? {
                Some(r) => r,
                None => break,
            }
        };
        calls += 1;
        if arm.c07 || arm.c16 {
            // another check's run: panics are C06's business
            if rec.res.is_panic() {
                acc.inconclusive += 1;
                break;
            }
        } else {
            panic_verdict(&rec)?;
        }
    }
    d.finish(acc);
    acc.tally("calls_under_catch_unwind", calls);
    if calls >= 20 {
        acc.nontrivial(fp(&(case, mode as u64, calls, d.stats.sends, d.stats.errors)));
    }
    acc.sample(|| json!({"workload": "fuzz", "case": case, "config": format!("{:?}", d.node.cfg), "stats": format!("{:?}", d.stats)}));
    Ok(())
}

fn fuzz_full(ctx: &Ctx, case: u64, acc: &mut Acc) -> Verdict {
    fuzz(ctx, case, acc, Mode::Full)
}
fn fuzz_plain(ctx: &Ctx, case: u64, acc: &mut Acc) -> Verdict {
    fuzz(ctx, case, acc, Mode::Plain)
}
fn fuzz_big(ctx: &Ctx, case: u64, acc: &mut Acc) -> Verdict {
    fuzz(ctx, case, acc, Mode::BigItems)
}

/// Counters that wrap: the u8 epoch token (bumped by every idle transition, identity change, leave),
/// the u8 probe number, incarnations near u16::MAX. Every bump site is driven past 256 in several mixes.
fn wrap(ctx: &Ctx, case: u64, acc: &mut Acc) -> Verdict {
    let mut r = Rng64::derive(ctx.seed, 0x3A9, case);
    let mut cfg = Cfg::simple();
    cfg.notify_down = r.chance(1, 2);
    cfg.rda = 1;
    let pol = if r.chance(1, 2) { crate::ids::Renew::Bump } else { crate::ids::Renew::None };
    let mut node = Node::new(Id::with(0, 0, pol), cfg, crate::codecs::CodecKind::Hand, crate::bcast::HdlCfg::disabled(), r.next());
    let peer = Id::new(1, 0);
    let mut calls = 0u64;
    let mut probe: Option<Timer<Id>> = None;
    let mut go = |node: &mut Node, op: Op, probe: &mut Option<Timer<Id>>| -> Verdict {
        let rec = node.call(op);
        for (t, _) in rec.scheds() {
            if let Timer::ProbeRandomMember(_) = t {
                *probe = Some(t.clone());
            }
        }
        panic_verdict(&rec)
    };
    let total = 300 + r.below(400);
    // a prefix of `pre` bumps of one kind, then the remaining ones of another kind: puts the 256th bump on each site
    let pre = r.below(300);
    let kinds = [r.below(4), r.below(4)];
    for i in 0..total {
        let kind = if i < pre { kinds[0] } else { kinds[1] };
        match kind {
            0 => {
                // flap the lone peer: Active then Idle
                let inc = (i % 60_000) as u16;
                go(&mut node, Op::Apply(vec![Member::new(Id::new(1, (i % 200) as u8), inc, State::Alive)], true), &mut probe)?;
                go(&mut node, Op::Apply(vec![Member::new(Id::new(1, (i % 200) as u8), inc, State::Down)], true), &mut probe)?;
                go(&mut node, Op::Timer(Timer::RemoveDown(Id::new(1, (i % 200) as u8))), &mut probe)?;
                calls += 3;
            }
            1 => {
                let me = node.id();
                go(&mut node, Op::ChangeId(Id::with(0, me.gen.wrapping_add(1), pol)), &mut probe)?;
                calls += 1;
            }
            2 => {
                go(&mut node, Op::Leave, &mut probe)?;
                go(&mut node, Op::Reuse, &mut probe)?;
                calls += 2;
            }
            _ => {
                // probe rounds against a silent peer (probe number wraps; suspicion at rising incarnations)
                go(&mut node, Op::Apply(vec![Member::new(peer, u16::MAX - (i % 3) as u16, State::Alive)], true), &mut probe)?;
                if let Some(t) = probe.take() {
                    go(&mut node, Op::Timer(t), &mut probe)?;
                }
                calls += 2;
            }
        }
        if node.poisoned {
            break;
        }
    }
    acc.tally("calls_under_catch_unwind", calls);
    acc.tally("wrap_cases", 1);
    acc.max("epoch_bumps_in_one_case", total);
    acc.nontrivial(fp(&("wrap", case, total, pre, kinds)));
    acc.sample(|| json!({"workload": "wrap", "bumps": total, "first_kind": kinds[0], "first_kind_count": pre, "second_kind": kinds[1]}));
    Ok(())
}

/// chaos net with panics as the verdict
fn chaos_c06(ctx: &Ctx, case: u64, acc: &mut Acc) -> Verdict {
    let mut opts = chaos::default_opts(Arm::default(), ctx);
    opts.panic_is_violation = true;
    chaos::run_with(ctx, case, acc, &opts, |s| s.calls >= 50)
}

/// More than u16::MAX active members and a packet large enough to feed them
/// all. Needs addresses wider than the u16 of the usual harness identity, so
/// this workload brings its own identity, codec and runtime.
mod wide {
    use bytes::{Buf, BufMut};
    use foca::{Codec, Header, Identity, Member, Message, Notification, Runtime, State, Timer};
    use std::time::Duration;

    #[derive(Clone, Copy, Debug, PartialEq, Eq)]
    pub struct W(pub u32);
    impl Identity for W {
        type Addr = u32;
        fn renew(&self) -> Option<Self> {
            None
        }
        fn addr(&self) -> u32 {
            self.0
        }
        fn win_addr_conflict(&self, _o: &Self) -> bool {
            false
        }
    }
    #[derive(Debug)]
    pub struct E;
    impl std::fmt::Display for E {
        fn fmt(&self, f: &mut std::fmt::Formatter<'_>) -> std::fmt::Result {
            f.write_str("wide codec error")
        }
    }
    impl std::error::Error for E {}
    pub struct WC;
    pub const HEADER_LEN: usize = 11;
    pub const MEMBER_LEN: usize = 7;
    impl Codec<W> for WC {
        type Error = E;
        fn encode_header(&mut self, h: &Header<W>, mut b: impl BufMut) -> Result<(), E> {
            if b.remaining_mut() < HEADER_LEN {
                return Err(E);
            }
            b.put_u32(h.src.0);
            b.put_u16(h.src_incarnation);
            b.put_u32(h.dst.0);
            b.put_u8(match h.message {
                Message::Announce => 8,
                Message::Feed => 9,
                Message::Gossip => 7,
                _ => 0,
            });
            Ok(())
        }
        fn decode_header(&mut self, mut b: impl Buf) -> Result<Header<W>, E> {
            if b.remaining() < HEADER_LEN {
                return Err(E);
            }
            let src = W(b.get_u32());
            let src_incarnation = b.get_u16();
            let dst = W(b.get_u32());
            let message = match b.get_u8() {
                8 => Message::Announce,
                9 => Message::Feed,
                7 => Message::Gossip,
                _ => return Err(E),
            };
            Ok(Header { src, src_incarnation, dst, message })
        }
        fn encode_member(&mut self, m: &Member<W>, mut b: impl BufMut) -> Result<(), E> {
            if b.remaining_mut() < MEMBER_LEN {
                return Err(E);
            }
            b.put_u32(m.id().0);
            b.put_u16(m.incarnation());
            b.put_u8(match m.state() {
                State::Alive => 0,
                State::Suspect => 1,
                State::Down => 2,
            });
            Ok(())
        }
        fn decode_member(&mut self, mut b: impl Buf) -> Result<Member<W>, E> {
            if b.remaining() < MEMBER_LEN {
                return Err(E);
            }
            let id = W(b.get_u32());
            let inc = b.get_u16();
            let st = match b.get_u8() {
                0 => State::Alive,
                1 => State::Suspect,
                2 => State::Down,
                _ => return Err(E),
            };
            Ok(Member::new(id, inc, st))
        }
    }
    #[derive(Default)]
    pub struct Rt(pub Vec<(W, Vec<u8>)>);
    impl Runtime<W> for Rt {
        fn notify(&mut self, _n: Notification<'_, W>) {}
        fn send_to(&mut self, to: W, d: &[u8]) {
            self.0.push((to, d.to_vec()));
        }
        fn submit_after(&mut self, _t: Timer<W>, _a: Duration) {}
    }
}

fn feed_overflow(ctx: &Ctx, case: u64, acc: &mut Acc) -> Verdict {
    use rand::{rngs::SmallRng, SeedableRng};
    use wide::*;
    let n_members = 65_998u32 + (case as u32 % 3) * 700;
    let mut config = Config::simple();
    config.max_packet_size = std::num::NonZeroUsize::new(1_000_000).unwrap();
    let mut f = foca::Foca::new(W(0), config, SmallRng::seed_from_u64(ctx.seed ^ case), WC);
    let mut rt = Rt::default();
    let out = catch_unwind(AssertUnwindSafe(|| {
        let ups = (1..=n_members).map(|a| Member::new(W(a), 0, State::Alive));
        f.apply_many(ups, false, &mut rt).map_err(|e| format!("{e:?}"))?;
        // a newcomer announces: the reply feeds it the whole cluster
        let mut d = vec![];
        d.extend_from_slice(&(n_members + 1).to_be_bytes());
        d.extend_from_slice(&0u16.to_be_bytes());
        d.extend_from_slice(&0u32.to_be_bytes());
        d.push(8);
        rt.0.clear();
        f.handle_data(&d, &mut rt).map_err(|e| format!("{e:?}"))
    }));
    match out {
        Err(_) => {
            let (loc, msg) = crate::node::take_last_panic().unwrap_or_default();
            let short = loc.rsplit('/').next().unwrap_or(&loc).to_string();
            return Err(V::new(&format!("C06/panic@{short}"), format!("answering an Announce with {n_members} active members and 1 MB packets panicked at {loc}: {msg}")));
        }
        Ok(Err(e)) => return Err(V::new("C06/harness", format!("large feed setup failed: {e}"))),
        Ok(Ok(())) => {}
    }
    for (_, d) in &rt.0 {
        // independent check of the member count field against what the datagram really carries
        ensure!(d.len() >= HEADER_LEN + 2, "C06/harness", "feed too short");
        let claimed = ((d[HEADER_LEN] as usize) << 8) | d[HEADER_LEN + 1] as usize;
        let carried = (d.len() - HEADER_LEN - 2) / MEMBER_LEN;
        ensure!(
            (d.len() - HEADER_LEN - 2) % MEMBER_LEN == 0 && claimed == carried,
            "C06/silent-overflow-corrupts-datagram",
            "Feed claims {claimed} members but carries {carried} ({} bytes): the 16-bit count wrapped",
            d.len()
        );
        acc.max("largest_feed_members", carried as u64);
    }
    acc.tally("large_feed_cases", 1);
    acc.nontrivial(fp(&("feed", case)));
    Ok(())
}

fn check_config(c: &Config, n: u32, which: &str) -> Verdict {
    ensure!(!c.probe_period.is_zero() && !c.probe_rtt.is_zero(), "C06/config-ctor-illegal", "{which}({n}): zero probe duration");
    ensure!(c.probe_rtt < c.probe_period, "C06/config-ctor-illegal", "{which}({n}): probe_rtt >= probe_period");
    ensure!(!c.suspect_to_down_after.is_zero() && !c.remove_down_after.is_zero(), "C06/config-ctor-illegal", "{which}({n}): zero suspicion/forget duration");
    ensure!(c.suspect_to_down_after >= c.probe_period, "C06/config-ctor-illegal", "{which}({n}): suspect_to_down_after {:?} shorter than a probe period", c.suspect_to_down_after);
    ensure!(c.max_transmissions.get() >= 1 && c.max_packet_size.get() >= 1 && c.num_indirect_probes.get() >= 1, "C06/config-ctor-illegal", "{which}({n})");
    Ok(())
}

/// Range of cluster sizes for a case of the configuration-constructor sweep
fn ctor_range(tier: Tier, case: u64) -> (u64, u64, &'static str) {
    match tier {
        // quick: 1..=2^20 in 16 chunks, the top 2^16, then sparse cases
        Tier::Quick => match case {
            0..=15 => (case * 65_536 + 1, (case + 1) * 65_536, "dense-low"),
            16 => (u32::MAX as u64 - 65_535, u32::MAX as u64, "dense-top"),
            _ => (0, 0, "sparse"),
        },
        // thorough: every NonZeroU32, 65 536 chunks of 65 536
        Tier::Thorough => (case * 65_536 + u64::from(case == 0), (case + 1) * 65_536 - 1, "every-u32"),
    }
}

fn config_ctor(ctx: &Ctx, case: u64, acc: &mut Acc) -> Verdict {
    let (lo, hi, kind) = ctor_range(ctx.tier, case);
    let mut values: Vec<u32> = vec![];
    if kind == "sparse" {
        let mut r = Rng64::derive(ctx.seed, 0xC7, case);
        for sh in 0..32u32 {
            let p = 1u64 << sh;
            for v in [p.saturating_sub(1), p, p + 1] {
                if v >= 1 && v <= u32::MAX as u64 {
                    values.push(v as u32);
                }
            }
        }
        for _ in 0..60_000 {
            values.push((r.next() as u32).max(1));
        }
    }
    let run = |v: u32| -> Verdict {
        let n = NonZeroU32::new(v).expect("nonzero");
        let r = catch_unwind(AssertUnwindSafe(|| (Config::new_lan(n), Config::new_wan(n))));
        match r {
            Ok((a, b)) => {
                check_config(&a, v, "new_lan")?;
                check_config(&b, v, "new_wan")
            }
            Err(_) => {
                let (loc, msg) = crate::node::take_last_panic().unwrap_or_default();
                let short = loc.rsplit('/').next().unwrap_or(&loc).to_string();
                Err(V::new(&format!("C06/panic@{short}"), format!("Config::new_lan/new_wan({v}) panicked at {loc}: {msg}")))
            }
        }
    };
    let mut count = 0u64;
    if kind == "sparse" {
        for v in &values {
            run(*v)?;
            count += 1;
        }
    } else {
        let mut v = lo.max(1);
        while v <= hi {
            run(v as u32)?;
            count += 1;
            v += 1;
        }
    }
    acc.tally("config_constructor_calls", 2 * count);
    acc.nontrivial(fp(&("ctor", lo, hi, case)));
    if ctx.tier == Tier::Thorough {
        acc.exhaustive_parts.insert("Config::new_lan/new_wan for every NonZeroU32 (65 536 chunks of 65 536)".into());
    } else {
        acc.exhaustive_parts.insert("Config::new_lan/new_wan for every cluster size in 1..=2^20 and u32::MAX-65535..=u32::MAX".into());
    }
    Ok(())
}

pub fn check() -> Check {
    Check {
        id: "C06",
        level: "exploration",
        rule: "every public call under catch_unwind in child processes, in a debug-assertion+overflow-check build and a release build: hostile single-instance histories (random bytes of all lengths incl. > max_packet_size, datagrams whose count/length fields lie, crafted timers with arbitrary tokens/identities, set_config with arbitrary legal configs incl. other packet sizes, add_broadcast sizes around max_packet_size and the u16 prefix, every other API method), chaos-net histories, feeds for > 65 535 active members with 1 MB packets, and the configuration constructors (quick: all of 1..=2^20, the top 2^16, powers of two +-1, 60 000 random per sparse case; thorough: every NonZeroU32). Panics are de-duplicated by location. Thorough additionally runs a subset under Miri and AddressSanitizer. Non-trivial: >= 20 calls survived; distinct by case fingerprint.",
        assumptions: &[
            "user-supplied Codec/Handler/Identity/Runtime of the harness do not panic (a panic located in /verif/harness is reported as a harness error, not a violation)",
            "serde codecs run with a 64 KiB byte limit: allocation-failure aborts are outside the crate's stated guarantee",
        ],
        required: &["calls_under_catch_unwind", "config_constructor_calls"],
        workloads: vec![
            Workload { name: "fuzz_full", f: fuzz_full, quick: 20_000, thorough: 600_000, flav: Flav::Both },
            Workload { name: "fuzz_plain", f: fuzz_plain, quick: 20_000, thorough: 600_000, flav: Flav::Both },
            Workload { name: "fuzz_big", f: fuzz_big, quick: 1_200, thorough: 30_000, flav: Flav::Both },
            Workload { name: "chaos", f: chaos_c06, quick: 12_000, thorough: 400_000, flav: Flav::Both },
            Workload { name: "wrap", f: wrap, quick: 3_200, thorough: 80_000, flav: Flav::Both },
            Workload { name: "feed_wide", f: feed_overflow, quick: 2, thorough: 6, flav: Flav::Both },
            Workload { name: "config_ctor", f: config_ctor, quick: 20, thorough: 65_536, flav: Flav::Both },
        ],
        exhaustive: false,
        aggregate: None,
    }
}
