//! C18 — reply cascades terminate: no message storms (timers held).
use crate::bcast::{make_item, HdlCfg};
use crate::codecs::CodecKind;
use crate::ensure;
use crate::gen;
use crate::ids::{Id, Renew};
use crate::node::{Cfg, Node, Op};
use crate::run::{Acc, Check, Ctx, Flav, Verdict, Workload, V};
use crate::util::{fp, Rng64};
use crate::wire::{self, kind_name};
use foca::{Header, Member, Message, State};
use serde_json::json;
use std::collections::BTreeMap;

// caps, against the longest legitimate cascades observed over 2 x 10^7 cascades of the unchanged tree:
// 40 deliveries, 5 deliveries of the same (src, dst, kind), causal chains (reply to a reply to ...) of 12 links
const DELIVERY_CAP: usize = 96;
const TRIPLE_CAP: usize = 8;
const DEPTH_CAP: usize = 20;

struct World {
    nodes: Vec<Node>,
    codec: CodecKind,
    k: usize,
    victim_world: bool,
}

/// Build a reachable world: every knowledge state comes from real operations,
/// and a peer never holds a generation newer than the member's actual one.
fn build(r: &mut Rng64) -> (World, String) {
    let n = r.range(2, 4) as usize;
    let codec = *r.pick(&[CodecKind::Hand, CodecKind::Postcard, CodecKind::BincodeStd]);
    let mut cfg = Cfg::simple();
    cfg.k = r.range(1, 3) as usize;
    cfg.notify_down = r.chance(2, 3);
    cfg.tx = *r.pick(&[1u8, 3, 10, 40]);
    cfg.mps = 1400;
    // (timers are held, but an instance that goes idle makes a last announce-to-down round when that task is on)
    if r.chance(1, 3) {
        cfg.pad = Some((cfg.p, r.range(1, 3) as usize));
    }
    let hcfg = if r.chance(1, 3) { HdlCfg::simple() } else { HdlCfg::disabled() };
    let renewable = r.chance(1, 2);
    let mut desc = format!("n={n} k={} notify_down={} renewable={renewable} custom={} ", cfg.k, cfg.notify_down, hcfg.enabled);
    // actual generation of each member: reached by real identity changes
    // (a quarter of the worlds live at the top of the generation range, where the next renewal wraps around and
    // yields an identity that loses the conflict: a failed renewal, not a new life)
    let base: u8 = if r.chance(1, 4) { 253 } else { 0 };
    let gens: Vec<u8> = (0..n).map(|_| base + r.below(3) as u8).collect();
    let pol = if renewable { *r.pick(&[Renew::Bump, Renew::Bump, Renew::Bump, Renew::Losing, Renew::Same]) } else { Renew::None };
    desc.push_str(&format!("renew={pol:?} base_generation={base} "));
    let mut nodes: Vec<Node> = (0..n).map(|a| Node::new(Id::with(a as u16, base, pol), cfg.clone(), codec, hcfg, r.next())).collect();
    for (i, node) in nodes.iter_mut().enumerate() {
        for g in (base as u16 + 1)..=(gens[i] as u16) {
            let _ = node.call(Op::ChangeId(Id::with(i as u16, g as u8, pol)));
        }
    }
    // world family "victim": member 0 still knows everybody as Alive while most peers hold it as Down
    // (the falsely-declared-down situation); otherwise fully random mutual knowledge
    let victim_world = n >= 3 && r.chance(1, 3);
    if victim_world {
        desc.push_str("[victim world: 0 knows all Alive, peers mostly hold 0 Down] ");
    }
    for i in 0..n {
        for j in 0..n {
            if i == j {
                continue;
            }
            let what = if victim_world {
                if j == 0 {
                    *r.pick(&[3u64, 3, 4, 1])
                } else {
                    1
                }
            } else {
                r.below(6)
            };
            if what == 0 {
                desc.push_str(&format!("[{i} knows {j}: unknown] "));
                continue;
            }
            // current or superseded generation, never a newer one
            let g = if what == 5 && gens[j] > base { base + r.below((gens[j] - base) as u64) as u8 } else { gens[j] };
            let st = match what {
                1 | 5 => State::Alive,
                2 => State::Suspect,
                _ => State::Down,
            };
            let m = Member::new(Id::new(j as u16, g), 0, st);
            desc.push_str(&format!("[{i} knows {j}: {m:?}] "));
            let _ = nodes[i].call(Op::Apply(vec![m], r.chance(1, 2)));
        }
    }
    // own state
    for (i, node) in nodes.iter_mut().enumerate() {
        match if victim_world { 4 } else { r.below(5) } {
            0 => {
                let _ = node.call(Op::Leave);
                desc.push_str(&format!("[{i} left] "));
            }
            1 if !renewable || pol != Renew::Bump => {
                let me = node.id();
                let _ = node.call(Op::Apply(vec![Member::new(me, 0, State::Down)], false));
                desc.push_str(&format!("[{i} told it is down] "));
            }
            _ => {}
        }
        if hcfg.enabled && r.chance(1, 2) {
            let _ = node.call(Op::AddBroadcast(make_item(100 + i as u32, i as u8, 1, 12, 0x55)));
        }
    }
    // family "mutual suspicion that was sorted out": 0 and 1 suspected each other (the rumours are still in their
    // backlogs), both refuted, and each learned the other's new incarnation from a Feed sent by a third member
    if n >= 3 && !victim_world && r.chance(1, 5) {
        desc.push_str("[mutual suspicion of 0 and 1, refuted, learned from Feeds] ");
        for (a, b) in [(0usize, 1usize), (1, 0)] {
            let idb = nodes[b].id();
            let incb = nodes[b].last.snap.incarnation;
            let _ = nodes[a].call(Op::Apply(vec![Member::new(Id::new(idb.addr, idb.gen), incb, State::Alive)], true));
            let _ = nodes[a].call(Op::Apply(vec![Member::new(Id::new(idb.addr, idb.gen), incb, State::Suspect)], true));
        }
        for a in [0usize, 1] {
            if nodes[a].last.snap.connection_state != 2 {
                let me = nodes[a].id();
                let inc = nodes[a].last.snap.incarnation;
                let _ = nodes[a].call(Op::Apply(vec![Member::new(me, inc, State::Suspect)], true));
            }
        }
        for (a, b) in [(0usize, 1usize), (1, 0)] {
            let (idc, incc) = (nodes[2].id(), nodes[2].last.snap.incarnation);
            let (idb, incb) = (nodes[b].id(), nodes[b].last.snap.incarnation);
            let h = Header { src: Id::new(idc.addr, idc.gen), src_incarnation: incc, dst: nodes[a].id(), message: Message::Feed };
            let d = wire::build(codec, &h, Some(&[Member::new(Id::new(idb.addr, idb.gen), incb, State::Alive)]), &[]);
            let _ = nodes[a].call(Op::Data(d));
        }
    }
    // a past: some members have refuted a suspicion before (whatever they sent then is long gone), and some have
    // learned the current incarnation of others from a Feed (the reply to an Announce) rather than from gossip
    if r.chance(1, 2) {
        for i in 0..n {
            if nodes[i].last.snap.connection_state != 2 && r.chance(1, 3) {
                let me = nodes[i].id();
                let inc = nodes[i].last.snap.incarnation;
                let _ = nodes[i].call(Op::Apply(vec![Member::new(me, inc, State::Suspect)], true));
                desc.push_str(&format!("[{i} has refuted a suspicion] "));
            }
        }
        if n >= 3 {
            for i in 0..n {
                for j in 0..n {
                    if i == j || !r.chance(1, 3) {
                        continue;
                    }
                    let c = (0..n).find(|x| *x != i && *x != j).unwrap();
                    let (idc, incc) = (nodes[c].id(), nodes[c].last.snap.incarnation);
                    let (idj, incj) = (nodes[j].id(), nodes[j].last.snap.incarnation);
                    let h = Header { src: Id::new(idc.addr, idc.gen), src_incarnation: incc, dst: nodes[i].id(), message: Message::Feed };
                    let d = wire::build(codec, &h, Some(&[Member::new(Id::new(idj.addr, idj.gen), incj, State::Alive)]), &[]);
                    let _ = nodes[i].call(Op::Data(d));
                    desc.push_str(&format!("[{i} was fed {j}@inc{incj} by {c}] "));
                }
            }
        }
    }
    let k = cfg.k;
    (World { nodes, codec, k, victim_world }, desc)
}

fn initial_datagram(w: &World, r: &mut Rng64, kind: usize) -> (Id, Vec<u8>, String) {
    let n = w.nodes.len();
    let (a, mut b) = if w.victim_world {
        // somebody talks to the victim, or the victim talks to somebody
        if r.chance(1, 2) {
            (1 + r.usize(n - 1), 0)
        } else {
            (0, 1 + r.usize(n - 1))
        }
    } else {
        (r.usize(n), r.usize(n))
    };
    if b == a {
        b = (a + 1) % n;
    }
    let c = (0..n).find(|x| *x != a && *x != b).unwrap_or(a);
    let (src, dst, third) = (w.nodes[a].id(), w.nodes[b].id(), w.nodes[c].id());
    let nr = r.below(3) as u8;
    let message = match kind {
        0 => Message::Ping(nr),
        1 => Message::Ack(nr),
        2 => Message::PingReq { target: third, probe_number: nr },
        3 => Message::IndirectPing { origin: third, probe_number: nr },
        4 => Message::IndirectAck { target: third, probe_number: nr },
        5 => Message::ForwardedAck { origin: third, probe_number: nr },
        6 => Message::Gossip,
        7 => Message::Announce,
        8 => Message::Feed,
        9 => Message::Broadcast,
        _ => Message::TurnUndead,
    };
    let h = Header { src, src_incarnation: 0, dst, message: message.clone() };
    // reachable updates: about actual identities at incarnation 0
    let members: Option<Vec<Member<Id>>> = if wire::piggybacks(&message) {
        let cnt = r.below(3);
        Some(
            (0..cnt)
                .map(|_| {
                    let x = if w.victim_world && r.chance(1, 2) { w.nodes[0].id() } else { w.nodes[r.usize(n)].id() };
                    Member::new(Id::new(x.addr, x.gen), 0, gen::state(r))
                })
                .collect(),
        )
    } else {
        None
    };
    let d = wire::build(w.codec, &h, members.as_deref(), &[]);
    (dst, d, format!("{} {src:?}->{dst:?} updates {members:?}", kind_name(&message)))
}

fn cascade_case(ctx: &Ctx, case: u64, acc: &mut Acc) -> Verdict {
    let mut r = Rng64::derive(ctx.seed, 0xC18, case);
    let (mut w, desc) = build(&mut r);
    let kind = (case % 11) as usize;
    let (dst, d, what) = initial_datagram(&w, &mut r, kind);
    crate::run::trace(|| format!("world: {desc}"));
    crate::run::trace(|| format!("inject: {what}"));
    let mut bag: Vec<(Id, Vec<u8>, usize)> = vec![(dst, d, 0)];
    let mut deliveries = 0usize;
    let mut max_fanout = 0usize;
    let mut max_depth = 0usize;
    let mut max_triple = 0usize;
    let mut triples: BTreeMap<(Id, Id, &'static str), usize> = BTreeMap::new();
    // delivery order strategies: random, FIFO, LIFO, and two adversarial ones that look at the datagrams
    // (replies to the newest identities first / automatic replies last)
    let strategy = r.below(6);
    let codec = w.codec;
    let rank = |d: &Vec<u8>| -> (u8, u8) {
        match wire::decode_header(codec, d) {
            Ok((h, _)) => (u8::from(h.message == Message::TurnUndead), 255 - h.src.gen),
            Err(_) => (0, 0),
        }
    };
    while !bag.is_empty() {
        let idx = match strategy {
            0 | 1 => r.usize(bag.len()),
            2 => 0,
            3 => bag.len() - 1,
            4 => {
                // gossip and friends before TurnUndead, newest source generation first
                let mut best = 0;
                for i in 1..bag.len() {
                    if rank(&bag[i].1) < rank(&bag[best].1) {
                        best = i;
                    }
                }
                best
            }
            _ => {
                // TurnUndead first, oldest source generation first
                let mut best = 0;
                for i in 1..bag.len() {
                    if rank(&bag[i].1) > rank(&bag[best].1) {
                        best = i;
                    }
                }
                best
            }
        };
        let (to, data, depth) = bag.remove(idx);
        max_depth = max_depth.max(depth);
        ensure!(
            depth <= DEPTH_CAP,
            "C18/causal-chain-too-long",
            "a chain of {depth} automatic reactions (each datagram caused by the delivery of the previous one) and still going (world: {desc}; injected {what})"
        );
        let Some(j) = w.nodes.iter().position(|x| x.id().addr == to.addr) else { continue };
        if w.nodes[j].poisoned {
            acc.inconclusive += 1;
            return Ok(());
        }
        deliveries += 1;
        let (hdr, _) = wire::decode_header(w.codec, &data).map_err(|e| V::new("C18/harness", e))?;
        let t = triples.entry((hdr.src, hdr.dst, kind_name(&hdr.message))).or_default();
        *t += 1;
        max_triple = max_triple.max(*t);
        ensure!(
            *t <= TRIPLE_CAP,
            "C18/reply-cycle",
            "{} {:?}->{:?} delivered {} times in one cascade (world: {desc}; injected {what})",
            kind_name(&hdr.message),
            hdr.src,
            hdr.dst,
            *t
        );
        ensure!(
            deliveries <= DELIVERY_CAP,
            "C18/cascade-does-not-drain",
            "{deliveries} deliveries and the network is still not empty ({} in flight) (world: {desc}; injected {what})",
            bag.len()
        );
        // self-directed content of this datagram bounds the legitimate fan-out
        let self_updates = wire::parse(w.codec, &data)
            .ok()
            .and_then(|p| p.members)
            .map(|ms| ms.iter().filter(|m| m.id().addr == to.addr).count())
            .unwrap_or(0)
            + usize::from(hdr.message == Message::TurnUndead);
        let rec = w.nodes[j].call(Op::Data(data));
        if rec.res.is_panic() {
            acc.inconclusive += 1;
            return Ok(());
        }
        let fan = rec.sends().count();
        max_fanout = max_fanout.max(fan);
        let bound = (self_updates + 1) * w.k + 2;
        ensure!(
            fan <= bound,
            "C18/fan-out",
            "one {} caused {fan} new datagrams (bound {bound}; world: {desc})",
            kind_name(&hdr.message)
        );
        for (to, d) in rec.sends() {
            bag.push((*to, d.clone(), depth + 1));
        }
        // timers are collected but never fired
    }
    acc.max("deliveries_until_drained", deliveries as u64);
    acc.max("fan_out_per_delivery", max_fanout as u64);
    acc.max("causal_depth", max_depth as u64);
    acc.max("repeats_of_one_src_dst_kind", max_triple as u64);
    acc.tally("cascades_drained", 1);
    acc.tally(&format!("initial/{}", wire::KINDS[kind.min(10)]), 1);
    acc.tally(&format!("delivery_order_strategy/{strategy}"), 1);
    acc.tally("datagrams_delivered", deliveries as u64);
    if deliveries >= 2 {
        acc.nontrivial(fp(&(desc.clone(), what.clone())));
    }
    acc.sample(|| json!({"workload": "cascade", "world": desc, "injected": what, "deliveries": deliveries, "max_fanout": max_fanout}));
    Ok(())
}

/// A larger group with packets so small that a Feed cannot list everybody, then a datagram that makes the same
/// instance gossip: whatever the Feed left unused must not turn into extra recipients.
fn feedstorm_case(ctx: &Ctx, case: u64, acc: &mut Acc) -> Verdict {
    let mut r = Rng64::derive(ctx.seed, 0xC18F, case);
    let n = r.range(7, 12) as usize;
    let codec = *r.pick(&[CodecKind::Hand, CodecKind::Postcard, CodecKind::BincodeStd]);
    let mut cfg = Cfg::simple();
    cfg.k = r.range(1, 3) as usize;
    cfg.notify_down = r.chance(1, 2);
    cfg.tx = *r.pick(&[1u8, 3, 10]);
    let renewable = r.chance(1, 2);
    let pol = if renewable { Renew::Bump } else { Renew::None };
    let b = r.usize(n);
    let a = (b + 1 + r.usize(n - 1)) % n;
    let c = (b + 1 + r.usize(n - 1)) % n;
    // room for the Feed header plus one or two members (foca samples at least five candidates for a Feed)
    let hl = wire::encode_header(codec, &Header { src: Id::new(b as u16, 0), src_incarnation: 0, dst: Id::new(a as u16, 0), message: Message::Feed }).len();
    let ml = wire::encode_member(codec, &Member::new(Id::new(2, 0), 0, State::Alive)).len();
    let need2 = wire::encode_header(codec, &Header { src: Id::new(c as u16, 0), src_incarnation: 0, dst: Id::new(b as u16, 0), message: Message::Ping(1) }).len() + 2 + ml;
    cfg.mps = (hl + 2 + ml * r.range(1, 2) as usize + r.usize(3)).max(need2);
    let mut nodes: Vec<Node> = (0..n).map(|a| Node::new(Id::with(a as u16, 0, pol), cfg.clone(), codec, HdlCfg::disabled(), r.next())).collect();
    for i in 0..n {
        let all: Vec<Member<Id>> = (0..n).filter(|j| *j != i).map(|j| Member::new(Id::new(j as u16, 0), 0, State::Alive)).collect();
        let _ = nodes[i].call(Op::Apply(all, false));
    }
    let (ida, idb, idc) = (nodes[a].id(), nodes[b].id(), nodes[c].id());
    let desc = format!("n={n} k={} max_packet_size={} renewable={renewable} notify_down={}", cfg.k, cfg.mps, cfg.notify_down);
    // 1. Announce a -> b (answered with a Feed that cannot hold everybody); 2. something that makes b gossip
    let second_kind = r.below(4);
    let second = match second_kind {
        0 => wire::build(codec, &Header { src: idc, src_incarnation: 0, dst: idb, message: Message::Gossip }, Some(&[Member::new(idb, 0, State::Suspect)]), &[]),
        1 => wire::build(codec, &Header { src: idc, src_incarnation: 0, dst: idb, message: Message::Ping(1) }, Some(&[Member::new(idb, 0, State::Suspect)]), &[]),
        2 => wire::build(codec, &Header { src: idc, src_incarnation: 0, dst: idb, message: Message::TurnUndead }, None, &[]),
        _ => wire::build(codec, &Header { src: idc, src_incarnation: 0, dst: idb, message: Message::Gossip }, Some(&[Member::new(idb, 0, State::Down)]), &[]),
    };
    let injections = vec![
        (idb, wire::build(codec, &Header { src: ida, src_incarnation: 0, dst: idb, message: Message::Announce }, None, &[]), "Announce"),
        (idb, second, ["Gossip+Suspect(self)", "Ping+Suspect(self)", "TurnUndead", "Gossip+Down(self)"][second_kind as usize]),
    ];
    let mut total = 0usize;
    let mut max_fanout = 0usize;
    for (inj, (dst, d, what)) in injections.into_iter().enumerate() {
        let mut bag: Vec<(Id, Vec<u8>)> = vec![(dst, d)];
        let mut deliveries = 0usize;
        while !bag.is_empty() {
            let idx = r.usize(bag.len());
            let (to, data) = bag.remove(idx);
            let Some(j) = nodes.iter().position(|x| x.id().addr == to.addr) else { continue };
            deliveries += 1;
            ensure!(deliveries <= DELIVERY_CAP, "C18/cascade-does-not-drain", "{deliveries} deliveries after injecting {what} and the network is still not empty ({desc})");
            let (hdr, _) = wire::decode_header(codec, &data).map_err(|e| V::new("C18/harness", e))?;
            let self_updates = wire::parse(codec, &data).ok().and_then(|p| p.members).map(|ms| ms.iter().filter(|m| m.id().addr == to.addr).count()).unwrap_or(0)
                + usize::from(hdr.message == Message::TurnUndead);
            let rec = nodes[j].call(Op::Data(data));
            if rec.res.is_panic() {
                acc.inconclusive += 1;
                return Ok(());
            }
            let fan = rec.sends().count();
            max_fanout = max_fanout.max(fan);
            // the datagram injected second is known exactly: one refutation / renewal gossip round (<= k) plus at most
            // one direct reply
            let bound = if inj == 1 && deliveries == 1 { cfg.k + 1 } else { (self_updates + 1) * cfg.k + 2 };
            ensure!(
                fan <= bound,
                "C18/fan-out",
                "one {} caused {fan} new datagrams (bound {bound}) after the instance had answered an Announce with a Feed that could not list all {} members ({desc}; injected {what})",
                kind_name(&hdr.message),
                n - 2
            );
            for (to, d) in rec.sends() {
                bag.push((*to, d.clone()));
            }
        }
        total += deliveries;
    }
    acc.max("feedstorm_deliveries_until_drained", total as u64);
    acc.max("feedstorm_fan_out_per_delivery", max_fanout as u64);
    acc.tally("feedstorm_cases", 1);
    acc.tally("datagrams_delivered", total as u64);
    acc.nontrivial(fp(&("feedstorm", desc.clone(), a, b, c, second_kind)));
    acc.sample(|| json!({"workload": "feedstorm", "world": desc, "deliveries": total, "max_fanout": max_fanout}));
    Ok(())
}

pub fn check() -> Check {
    Check {
        id: "C18",
        level: "exploration",
        rule: "2..=4 real instances put, by public operations only, into random reachable mutual-knowledge states (unknown/Alive/Suspect/Down/superseded generation; active/idle/left/told-down; renewable or not; notify_down_members on/off; with/without custom broadcasts); one well-formed datagram of each of the 11 kinds (case index mod 11) injected; network drained with all timers held under 5 delivery-order strategies (random, FIFO, LIFO, gossip-before-TurnUndead with newest identities first, TurnUndead-first with oldest identities first). Caps: 96 deliveries per cascade, 8 deliveries of the same (src,dst,kind), causal chains of 20 links, fan-out (self-directed updates+1)*k+2 per delivery (longest legitimate values seen over 2x10^7 cascades: 40, 5, 12). max_transmissions in {1,3,10,40}; a third of the worlds with announce-to-down enabled. Non-trivial: >= 2 deliveries; distinct by (world, injected datagram). A quarter of the worlds live at generations 253..255 (the next renewal wraps and fails) and renewable worlds also use renew() policies that yield losing or identical identities. 'feedstorm': 7..12 instances with packets that hold one or two Feed members; an Announce is answered, then a datagram that makes the same instance gossip (suspicion/Down about itself, TurnUndead) is delivered: exactly one gossip round (<= k) plus at most one reply is admissible.",
        assumptions: &["a finite run cannot show non-termination: a reply chain longer than the caps (an order of magnitude above the longest legitimate one observed) is what is reported"],
        required: &["cascades_drained", "initial/TurnUndead", "initial/Ping"],
        workloads: vec![
            Workload { name: "cascade", f: cascade_case, quick: 240_000, thorough: 3_000_000, flav: Flav::Checked },
            Workload { name: "feedstorm", f: feedstorm_case, quick: 32_000, thorough: 400_000, flav: Flav::Checked },
        ],
        exhaustive: false,
        aggregate: None,
    }
}
