//! Cluster-level checks on the discrete-event simulator: C02 (fault-free),
//! C03 (crash / leave completeness), C04 (single lost datagram), C05 (healed
//! partition).
use crate::bcast::HdlCfg;
use crate::codecs::CodecKind;
use crate::ensure;
use crate::ids::{Id, Renew};
use crate::node::{CallRec, Cfg, Op, Res, R};
use crate::run::{Acc, Check, Ctx, Flav, Tier, Verdict, Workload, V};
use crate::util::{fp, Rng64};
use crate::wire;
use crate::work::sim::{form, Join, Sim, JOINS};
use foca::{Header, Member, Message, OwnedNotification as N, State, Timer};
use serde_json::json;

fn max_lens(codec: CodecKind) -> (usize, usize) {
    // widest identities of the harness domain: addr % 3 == 2
    let a = Id::new(65_534, 255);
    let h = Header { src: a, src_incarnation: u16::MAX, dst: a, message: Message::PingReq { target: a, probe_number: 255 } };
    let m = Member::new(a, u16::MAX, State::Suspect);
    (wire::encode_header(codec, &h).len(), wire::encode_member(codec, &m).len())
}

// ------------------------------------------------------------------ C02

fn c02_case(ctx: &Ctx, case: u64, acc: &mut Acc) -> Verdict {
    let mut r = Rng64::derive(ctx.seed, 0xC02, case);
    let nmax = if ctx.tier == Tier::Quick { 8 } else { 24 };
    let n = r.range(2, nmax) as usize;
    let codec = *r.pick(&[CodecKind::Hand, CodecKind::Hand, CodecKind::HandDirty, CodecKind::Postcard, CodecKind::BincodeStd, CodecKind::BincodeLegacy]);
    let (hl, ml) = max_lens(codec);
    // (probe_rtt < probe_period is all the statement asks: with 1.1 x rtt there is no time for an indirect probe to
    // rescue a missed direct Ack before the next round)
    let p = *r.pick(&[R * 11 / 10, R * 22 / 10, R * 3, R * 5]);
    let size_class = r.below(3);
    let mps = match size_class {
        0 => hl + 2 + ml, // header + one member
        1 => hl + 2 + ml * r.range(2, n as u64 + 1) as usize,
        _ => 1400,
    };
    let per = |r: &mut Rng64| if r.chance(1, 2) { Some((r.range(p / 2, 4 * p), r.range(1, 3) as usize)) } else { None };
    let cfg = Cfg {
        p,
        r: R,
        k: r.range(1, 4) as usize,
        tx: r.range(1, 10) as u8,
        s2d: p * r.range(2, 6),
        rda: 86_400_000_000,
        mps,
        notify_down: r.chance(1, 2),
        pa: per(&mut r),
        pad: per(&mut r),
        pg: per(&mut r),
    };
    let join = *r.pick(&JOINS);
    let renew = if r.chance(1, 2) { Renew::Bump } else { Renew::None };
    let mut sim = Sim::new(r.next(), codec, (1, R / 4));
    for a in 0..n {
        sim.add(a as u16, cfg.clone(), renew, HdlCfg::disabled(), None);
    }
    // safety clause, checked on every call
    let mut safety = |s: &Sim, i: usize, rec: &CallRec| -> Result<(), V> {
        let who = s.nodes[i].node.id();
        if let Res::Err(e) = &rec.res {
            return Err(V::new("C02/error-returned", format!("{who:?}: {} returned {e:?} in a fault-free run at t={}us", rec.op.name(), s.now)));
        }
        if rec.res.is_panic() {
            return Ok(());
        }
        for n in rec.notes() {
            ensure!(
                !matches!(n, N::MemberDown(_) | N::Idle | N::Defunct | N::Rejoin(_)),
                "C02/bad-notification",
                "{who:?} notified {n:?} in a fault-free run at t={}us",
                s.now
            );
        }
        for m in &rec.post.state {
            ensure!(m.state() == State::Alive, "C02/false-suspicion", "{who:?} records live member {m:?} at t={}us", s.now);
        }
        for (t, _) in rec.scheds() {
            ensure!(!matches!(t, Timer::ChangeSuspectToDown { .. }), "C02/false-suspicion", "{who:?} scheduled {t:?} in a fault-free run");
        }
        Ok(())
    };
    let last = form(&mut sim, n, join, 2 * p, acc, &mut safety)?;
    // joining is over once every Feed has been delivered
    sim.run_until(last + R, acc, &mut safety)?;
    // "... or returns an error from any call": a legal reconfiguration at runtime is such a call (the very same
    // configuration again, or another max_transmissions / fan-out)
    for _ in 0..2 {
        let i = sim.rng.usize(n);
        let mut c2 = sim.nodes[i].node.cfg.clone();
        match sim.rng.below(3) {
            0 => {}
            1 => c2.tx = sim.rng.range(1, 10) as u8,
            _ => c2.k = sim.rng.range(1, 4) as usize,
        }
        let rec = sim.call(i, Op::SetConfig(c2), acc)?;
        safety(&sim, i, &rec)?;
        acc.tally("runtime_reconfigurations", 1);
    }
    let mut related = vec![];
    for i in 0..n {
        for j in (i + 1)..n {
            if sim.lists(i, j) || sim.lists(j, i) {
                related.push((i, j));
            }
        }
    }
    let total_pairs = n * (n - 1) / 2;
    let complete = related.len() == total_pairs;
    if mps == 1400 && matches!(join, Join::SeqToFirst | Join::BurstToFirst) {
        ensure!(
            complete,
            "C02/feed-omits-members",
            "n={n} {join:?} with 1400-byte packets: only {} of {total_pairs} pairs know each other in at least one direction after joining",
            related.len()
        );
    }
    let bound = 4 * n as u64 + 4;
    let mut rel_done: Option<u64> = None;
    let mut full_done: Option<u64> = None;
    for k in 0..=bound {
        sim.run_until(last + R + k * p, acc, &mut safety)?;
        if rel_done.is_none() && related.iter().all(|&(i, j)| sim.lists(i, j) && sim.lists(j, i)) {
            rel_done = Some(k);
        }
        if full_done.is_none() && sim.full_view() {
            full_done = Some(k);
        }
        if rel_done.is_some() && (full_done.is_some() || !complete) && k >= 3 {
            break;
        }
    }
    ensure!(
        rel_done.is_some(),
        "C02/discovery-too-slow",
        "n={n} {join:?}: after {bound} probe periods some pair that knew each other in one direction is still not mutual; e.g. {:?}",
        related.iter().find(|&&(i, j)| !(sim.lists(i, j) && sim.lists(j, i)))
    );
    if complete {
        ensure!(full_done.is_some(), "C02/discovery-too-slow", "n={n} {join:?}: no full view after {bound} probe periods although every pair was related");
        acc.max(&format!("periods_to_full_view_n{n:02}"), full_done.unwrap());
        acc.tally("runs_with_complete_relation", 1);
    } else {
        acc.tally("runs_with_gossip_dependent_pairs", 1);
        acc.tally("gossip_dependent_pairs", (total_pairs - related.len()) as u64);
        if full_done.is_some() {
            acc.tally("gossip_dependent_runs_converged_anyway", 1);
        }
        // with the periodic announce on, every announce brings a Feed with the other side's whole view: pairs that
        // joining left unrelated are then found quickly. No single run carries a verdict (which member is asked
        // is random), the rate does (see c02_aggregate)
        if let Some((freq, _)) = cfg.pa {
            // (rates calibrated for clusters of up to 8 members; larger ones need more than 4n+4 periods more often)
            if freq <= 2 * p && n <= 8 {
                let both = if cfg.pg.is_some() { "_and_gossip" } else { "_only" };
                acc.tally(&format!("unrelated_pairs_runs_with_frequent_periodic_announce{both}"), 1);
                if full_done.is_none() {
                    acc.tally(&format!("unrelated_pairs_runs_with_frequent_periodic_announce{both}_not_converged"), 1);
                    acc.flag("faultfree", case);
                }
            }
        }
    }
    acc.max("periods_to_mutual_for_related_pairs", rel_done.unwrap());
    // keep running a little: safety must hold in steady state too
    let t_end = sim.now + 3 * p;
    sim.run_until(t_end, acc, &mut safety)?;
    sim.tally_into(acc);
    acc.tally("fault_free_runs", 1);
    acc.tally(&format!("join/{join:?}"), 1);
    acc.tally(&format!("packet_size_class/{size_class}"), 1);
    acc.nontrivial(fp(&(n, join, format!("{cfg:?}"), codec)));
    acc.sample(|| json!({"workload": "faultfree", "n": n, "join": format!("{join:?}"), "cfg": format!("{cfg:?}"), "codec": format!("{codec:?}"), "periods_to_full_view": full_done, "related_pairs": related.len(), "pairs": total_pairs}));
    Ok(())
}

/// Long fault-free runs of small clusters: more than 256 probe rounds per instance, so that every
/// wrapping counter (probe numbers are u8) goes all the way round at least once.
fn c02_long(ctx: &Ctx, case: u64, acc: &mut Acc) -> Verdict {
    let mut r = Rng64::derive(ctx.seed, 0xC02F, case);
    let n = r.range(2, 4) as usize;
    let p = *r.pick(&[R * 22 / 10, R * 3]);
    let cfg = Cfg {
        p,
        r: R,
        k: r.range(1, 3) as usize,
        tx: r.range(1, 10) as u8,
        s2d: p * 3,
        rda: 86_400_000_000,
        mps: 1400,
        notify_down: r.chance(1, 2),
        pa: if r.chance(1, 2) { Some((7 * p, 1)) } else { None },
        pad: None,
        pg: if r.chance(1, 2) { Some((p / 2, 2)) } else { None },
    };
    let codec = *r.pick(&[CodecKind::Hand, CodecKind::Postcard]);
    let mut sim = Sim::new(r.next(), codec, (1, R / 4));
    for a in 0..n {
        sim.add(a as u16, cfg.clone(), Renew::None, HdlCfg::disabled(), None);
    }
    let mut safety = |s: &Sim, i: usize, rec: &CallRec| -> Result<(), V> {
        let who = s.nodes[i].node.id();
        if let Res::Err(e) = &rec.res {
            return Err(V::new("C02/error-returned", format!("{who:?}: {} returned {e:?} in a fault-free run at t={}us (period {})", rec.op.name(), s.now, s.now / rec.cfg_pre.p)));
        }
        for n in rec.notes() {
            ensure!(!matches!(n, N::MemberDown(_) | N::Idle | N::Defunct | N::Rejoin(_)), "C02/bad-notification", "{who:?} notified {n:?} in a fault-free run at period {}", s.now / rec.cfg_pre.p);
        }
        for m in &rec.post.state {
            ensure!(m.state() == State::Alive, "C02/false-suspicion", "{who:?} records live member {m:?} at t={}us (probe period {})", s.now, s.now / rec.cfg_pre.p);
        }
        Ok(())
    };
    let last = form(&mut sim, n, Join::SeqToFirst, 2 * p, acc, &mut safety)?;
    let periods = 300 + r.below(320);
    sim.run_until(last + periods * p, acc, &mut safety)?;
    ensure!(sim.full_view(), "C02/discovery-too-slow", "n={n}: no full view after {periods} periods");
    sim.tally_into(acc);
    acc.tally("long_fault_free_runs", 1);
    acc.max("longest_run_in_probe_periods", periods);
    acc.nontrivial(fp(&("long", n, periods, format!("{cfg:?}"))));
    acc.sample(|| json!({"workload": "long", "n": n, "periods": periods, "calls": sim.calls}));
    Ok(())
}

/// Packets *just* large enough to feed the whole cluster (fixed-length identity encodings, so that "large enough"
/// is exact): every Feed must then list every active member other than the receiver, every joiner knows everybody
/// after one round trip, and the full view follows within the bound. One byte less is covered by the
/// zero-false-suspicion clause of the main workload.
fn c02_feedfit(ctx: &Ctx, case: u64, acc: &mut Acc) -> Verdict {
    let mut r = Rng64::derive(ctx.seed, 0xC02E, case);
    let nmax = if ctx.tier == Tier::Quick { 16 } else { 40 };
    let n = r.range(3, nmax) as usize;
    let codec = *r.pick(&crate::codecs::ALL_CODECS);
    // addresses that are multiples of 3 carry no padding: every identity, hence every header of one kind and
    // every member, has the same encoded length
    let addr = |i: usize| (3 * i) as u16;
    let hl = wire::encode_header(codec, &Header { src: Id::new(addr(0), 0), src_incarnation: 0, dst: Id::new(addr(n - 1), 0), message: Message::Feed }).len();
    let ml = wire::encode_member(codec, &Member::new(Id::new(addr(1), 0), 0, State::Alive)).len();
    if (hl + 2) / 2 > ml {
        // foca sizes its Feed sample from the header length; outside this premise "as many as fit" is not promised
        acc.inconclusive += 1;
        acc.tally("feedfit_premise_not_met", 1);
        return Ok(());
    }
    let slack = *r.pick(&[0usize, 0, 1, ml - 1]);
    let mps = hl + 2 + ml * (n - 2) + slack;
    let p = *r.pick(&[R * 22 / 10, R * 3]);
    let cfg = Cfg {
        p,
        r: R,
        k: r.range(1, 3) as usize,
        tx: r.range(1, 3) as u8,
        s2d: p * 3,
        rda: 86_400_000_000,
        mps,
        notify_down: false,
        pa: if r.chance(1, 4) { Some((5 * p, 1)) } else { None },
        pad: None,
        pg: None,
    };
    let mut sim = Sim::new(r.next(), codec, (1, R / 4));
    for a in 0..n {
        sim.add(addr(a), cfg.clone(), Renew::None, HdlCfg::disabled(), None);
    }
    let mut feeds = 0u64;
    let mut fed = 0u64;
    let mut safety = |s: &Sim, i: usize, rec: &CallRec| -> Result<(), V> {
        let who = s.nodes[i].node.id();
        if let Res::Err(e) = &rec.res {
            return Err(V::new("C02/error-returned", format!("{who:?}: {} returned {e:?} in a fault-free run at t={}us", rec.op.name(), s.now)));
        }
        for n in rec.notes() {
            ensure!(!matches!(n, N::MemberDown(_) | N::Idle | N::Defunct | N::Rejoin(_)), "C02/bad-notification", "{who:?} notified {n:?} in a fault-free run");
        }
        for m in &rec.post.state {
            ensure!(m.state() == State::Alive, "C02/false-suspicion", "{who:?} records live member {m:?} at t={}us", s.now);
        }
        for (to, d) in rec.sends() {
            let Ok(pd) = wire::parse(s.codec, d) else { continue };
            if pd.header.message != Message::Feed {
                continue;
            }
            let listed: std::collections::BTreeSet<Id> = pd.members.unwrap_or_default().iter().map(|m| *m.id()).collect();
            let cands: std::collections::BTreeSet<Id> = rec.post.active.iter().copied().filter(|x| x != to).collect();
            let need = pd.header_len + 2 + ml * cands.len();
            if need <= rec.cfg_pre.mps {
                ensure!(
                    listed == cands,
                    "C02/feed-omits-members",
                    "{who:?} answered {to:?} with a Feed of {} members although all {} active members fit ({need} bytes needed, max_packet_size {}); missing {:?}",
                    listed.len(),
                    cands.len(),
                    rec.cfg_pre.mps,
                    cands.difference(&listed).collect::<Vec<_>>()
                );
                fed += cands.len() as u64;
            }
            feeds += 1;
        }
        Ok(())
    };
    let last = form(&mut sim, n, Join::SeqToFirst, 2 * p, acc, &mut safety)?;
    sim.run_until(last + R, acc, &mut safety)?;
    // whoever's Announce reached the seed first is in the other's Feed
    for i in 0..n {
        for j in (i + 1)..n {
            ensure!(sim.lists(i, j) || sim.lists(j, i), "C02/feed-omits-members", "n={n}: members {i} and {j} do not know each other in either direction after joining although the packet size feeds the whole cluster");
        }
    }
    let bound = 4 * n as u64 + 4;
    let mut full_done = None;
    for k in 0..=bound {
        sim.run_until(last + R + k * p, acc, &mut safety)?;
        if sim.full_view() {
            full_done = Some(k);
            break;
        }
    }
    ensure!(full_done.is_some(), "C02/discovery-too-slow", "n={n}: no full view after {bound} probe periods with packets that feed the whole cluster");
    let t_end = sim.now + 2 * p;
    sim.run_until(t_end, acc, &mut safety)?;
    let _ = &mut safety;
    sim.tally_into(acc);
    acc.tally("feedfit_runs", 1);
    acc.tally("feeds_checked_for_completeness", feeds);
    acc.tally("members_fed", fed);
    acc.max("feedfit_largest_cluster", n as u64);
    acc.max("feedfit_periods_to_full_view", full_done.unwrap());
    acc.nontrivial(fp(&("feedfit", n, codec, slack, format!("{cfg:?}"))));
    acc.sample(|| json!({"workload": "feedfit", "n": n, "codec": format!("{codec:?}"), "max_packet_size": mps, "feed_header_len": hl, "member_len": ml, "feeds": feeds}));
    Ok(())
}

/// Same with the harness's variable-length identities (experiment): how often does a Feed omit members that
/// would all have fitted?
fn c02_feedfit_var(ctx: &Ctx, case: u64, acc: &mut Acc) -> Verdict {
    let mut r = Rng64::derive(ctx.seed, 0xC02D, case);
    let n = r.range(3, 16) as usize;
    let codec = *r.pick(&crate::codecs::ALL_CODECS);
    let mlen = |i: usize| wire::encode_member(codec, &Member::new(Id::new(i as u16, 0), 0, State::Alive)).len();
    let hlen = |a: usize, b: usize| wire::encode_header(codec, &Header { src: Id::new(a as u16, 0), src_incarnation: 0, dst: Id::new(b as u16, 0), message: Message::Feed }).len();
    let mut mps = 0;
    for j in 1..n {
        let need = hlen(0, j) + 2 + (1..n).filter(|x| *x != j).map(mlen).sum::<usize>();
        mps = mps.max(need);
    }
    let p = R * 3;
    let cfg = Cfg { p, r: R, k: 2, tx: r.range(1, 3) as u8, s2d: p * 3, rda: 86_400_000_000, mps, notify_down: false, pa: None, pad: None, pg: None };
    let mut sim = Sim::new(r.next(), codec, (1, R / 4));
    for a in 0..n {
        sim.add(a as u16, cfg.clone(), Renew::None, HdlCfg::disabled(), None);
    }
    let mut omitted = 0u64;
    let mut feeds = 0u64;
    let mut safety = |s: &Sim, _i: usize, rec: &CallRec| -> Result<(), V> {
        for (to, d) in rec.sends() {
            let Ok(pd) = wire::parse(s.codec, d) else { continue };
            if pd.header.message != Message::Feed {
                continue;
            }
            let listed = pd.members.unwrap_or_default().len();
            let cands: Vec<Id> = rec.post.active.iter().copied().filter(|x| x != to).collect();
            let need = pd.header_len + 2 + cands.iter().map(|c| mlen(c.addr as usize)).sum::<usize>();
            if need <= rec.cfg_pre.mps {
                feeds += 1;
                if listed < cands.len() {
                    omitted += 1;
                }
            }
        }
        Ok(())
    };
    let last = form(&mut sim, n, Join::SeqToFirst, 2 * p, acc, &mut safety)?;
    sim.run_until(last + R, acc, &mut safety)?;
    let mut unrelated = 0;
    for i in 0..n {
        for j in (i + 1)..n {
            if !(sim.lists(i, j) || sim.lists(j, i)) {
                unrelated += 1;
            }
        }
    }
    sim.run_until(last + R + (4 * n as u64 + 4) * p, acc, &mut safety)?;
    let _ = &mut safety;
    acc.tally("var_feeds_where_everything_fits", feeds);
    acc.tally("var_feeds_omitting_members_although_all_fit", omitted);
    acc.tally("var_unrelated_pairs_after_joining", unrelated);
    if !sim.full_view() {
        acc.tally("var_runs_without_full_view_after_bound", 1);
        acc.note(&format!("feedfit_var case {case}: n={n} codec={codec:?} mps={mps} tx={} no full view after 4n+4 periods ({unrelated} unrelated pairs after joining)", cfg.tx));
    }
    acc.tally("var_runs", 1);
    acc.nontrivial(fp(&("feedfit_var", case)));
    Ok(())
}

/// Rate rule for the discovery clause where it is only probabilistic: pairs that joining left unrelated in both
/// directions (concurrent joins through different seeds). With a frequent periodic announce (every <= 2 probe
/// periods) each announce is answered with a Feed carrying the other member's whole view, and on the unchanged
/// tree 9 % (announce + gossip on) / 12 % (announce only) of such runs (clusters of up to 8) still lack a full view after 4n+4
/// periods. A change that silences the periodic announce (or the Feed) pushes that beyond 30 %.
fn c02_aggregate(acc: &Acc) -> Option<V> {
    for which in ["_and_gossip", "_only"] {
        let runs = acc.tallies.get(&format!("unrelated_pairs_runs_with_frequent_periodic_announce{which}")).copied().unwrap_or(0);
        let bad = acc.tallies.get(&format!("unrelated_pairs_runs_with_frequent_periodic_announce{which}_not_converged")).copied().unwrap_or(0);
        if runs >= 400 && bad * 100 > runs * 22 {
            return Some(V::new(
                "C02/discovery-rate-with-periodic-announce",
                format!("with a frequent periodic announce{} on, {bad} of {runs} runs that started with unrelated pairs had no full view after 4n+4 probe periods ({:.1} %); the unchanged tree stays below 13 %", if which == "_and_gossip" { " and periodic gossip" } else { "" }, bad as f64 * 100.0 / runs as f64),
            ));
        }
    }
    None
}

// ------------------------------------------------------------------ shared formation

struct Formed {
    sim: Sim,
    n: usize,
    cfg: Cfg,
}

/// Deterministically build and form a cluster (same arguments ⇒ same run).
fn formed(seed: u64, n: usize, cfg: &Cfg, renew: Renew, lat: (u64, u64), acc: &mut Acc) -> Result<Option<Formed>, V> {
    formed_with(seed, n, cfg, renew, lat, Join::SeqToFirst, acc)
}

fn formed_with(seed: u64, n: usize, cfg: &Cfg, renew: Renew, lat: (u64, u64), join: Join, acc: &mut Acc) -> Result<Option<Formed>, V> {
    formed_stride(seed, n, cfg, renew, lat, join, 1, acc)
}

/// `stride` 3: addresses 0, 3, 6, ... (identities without padding: every header of one kind and every member
/// has the same encoded length)
#[allow(clippy::too_many_arguments)]
fn formed_stride(seed: u64, n: usize, cfg: &Cfg, renew: Renew, lat: (u64, u64), join: Join, stride: u16, acc: &mut Acc) -> Result<Option<Formed>, V> {
    let mut sim = Sim::new(seed, CodecKind::Hand, lat);
    for a in 0..n {
        sim.add(a as u16 * stride, cfg.clone(), renew, HdlCfg::disabled(), None);
    }
    let mut nop = |_: &Sim, _: usize, _: &CallRec| -> Result<(), V> { Ok(()) };
    let last = form(&mut sim, n, join, cfg.p, acc, &mut nop)?;
    let bound = 4 * n as u64 + 4;
    let mut ok = false;
    for k in 1..=bound {
        sim.run_until(last + cfg.r + k * cfg.p, acc, &mut nop)?;
        if sim.full_view_alive() {
            ok = true;
            break;
        }
    }
    // a formed cluster has a past: some members have refuted suspicions before (their incarnation is no longer 0).
    // The past is made through the public API - the member is handed a suspicion about itself, refutes it and
    // gossips - and given time to reach everybody (every member pings every other within 2n-1 rounds).
    if ok {
        let mut hr = Rng64::derive(seed, 0x4157, n as u64);
        let mut any = false;
        for i in 0..n {
            if hr.chance(1, 3) {
                let me = sim.nodes[i].node.id();
                let inc = *hr.pick(&[0u16, 0, 1, 6]);
                sim.call(i, Op::Apply(vec![Member::new(me, inc, State::Suspect)], true), acc)?;
                any = true;
            }
        }
        if any {
            acc.tally("formed_clusters_with_refuted_suspicions_in_their_past", 1);
            let t = sim.now + (2 * n as u64 + 1) * cfg.p;
            sim.run_until(t, acc, &mut nop)?;
            ok = sim.full_view_alive();
        }
    }
    // premise of C03/C04/C05: a formed, quiet cluster
    let quiet = sim.nodes.iter().all(|x| x.errs.is_empty() && x.notes.iter().all(|(_, n)| matches!(n, N::MemberUp(_) | N::Active)));
    if !ok || !quiet {
        return Ok(None);
    }
    Ok(Some(Formed { sim, n, cfg: cfg.clone() }))
}

// ------------------------------------------------------------------ C03

fn c03_case(ctx: &Ctx, case: u64, acc: &mut Acc) -> Verdict {
    // case = (configuration index, fault index): the faults of one configuration enumerate event indices
    let per_cfg = 24u64;
    let cfg_idx = case / per_cfg;
    let fault_idx = case % per_cfg;
    let mut r = Rng64::derive(ctx.seed, 0xC03, cfg_idx);
    let nmax = if ctx.tier == Tier::Quick { 7 } else { 10 };
    let n = r.range(2, nmax) as usize;
    let p = 3 * R;
    let s2d_periods = r.range(2, 5);
    let cfg = Cfg {
        p,
        r: R,
        k: r.range(1, 3) as usize,
        tx: r.range(1, 10) as u8,
        s2d: s2d_periods * p,
        rda: 86_400_000_000,
        mps: 1400,
        notify_down: r.chance(1, 2),
        pa: None,
        pad: None,
        pg: if r.chance(1, 2) { Some((p / 2, 2)) } else { None },
    };
    let sim_seed = r.next();
    // latency regimes as in C04: below R/4 only Ping/Ack flow while nobody has failed; below 0.9R (P = 3R) the
    // direct Ack still always arrives before the next round, but the indirect stage runs routinely and probes
    // of live members complete through ForwardedAck - the failure must be detected all the same
    let wide = r.chance(1, 2);
    let lat = if wide { (1, R * 9 / 10) } else { (1, R / 4) };
    let Some(mut f) = formed(sim_seed, n, &cfg, Renew::None, lat, acc)? else {
        acc.inconclusive += 1;
        return Ok(());
    };
    acc.tally(if wide { "latency_regime/below_0.9_rtt" } else { "latency_regime/below_rtt_quarter" }, 1);
    // the fault strikes after `skip` further events: the indices of one configuration sweep a window of
    // more than one full rotation of every member
    let mut fr = Rng64::derive(ctx.seed ^ 0x5eed, cfg_idx, fault_idx);
    let window_events = (2 * n as u64 + 2) * (3 * n as u64 + 2); // ≈ events in 2n+2 periods
    let skip = fault_idx * window_events / per_cfg + fr.below((window_events / per_cfg).max(1));
    let mut nop = |_: &Sim, _: usize, _: &CallRec| -> Result<(), V> { Ok(()) };
    for _ in 0..skip {
        if f.sim.step(acc)?.is_none() {
            break;
        }
    }
    let t_fail = f.sim.now;
    // failing subset: singletons, pairs, up to n-1
    let nf = match fault_idx % 4 {
        0 | 1 => 1,
        2 => 2.min(n - 1),
        _ => 1 + fr.usize(n - 1),
    };
    let mut failed: Vec<usize> = vec![];
    while failed.len() < nf {
        let x = fr.usize(n);
        if !failed.contains(&x) {
            failed.push(x);
        }
    }
    let leave = fault_idx % 3 == 0;
    // who listed whom at the moment of failure
    let listed: Vec<Vec<bool>> = (0..n).map(|i| (0..n).map(|j| i != j && f.sim.lists(i, j)).collect()).collect();
    let mut told_directly: Vec<(usize, usize)> = vec![]; // (recipient, leaver)
    for &x in &failed {
        if leave {
            let rec = f.sim.call(x, Op::Leave, acc)?;
            ensure!(rec.res == Res::Ok, "C03/leave-error", "leave_cluster returned {:?}", rec.res);
            ensure!(rec.has_note(&N::Defunct), "C03/leaver-not-defunct", "leave_cluster did not notify Defunct");
            let xid = f.sim.nodes[x].node.id();
            for (to, d) in rec.sends() {
                // "told" = the farewell datagram really carries Down(leaver) (with max_transmissions < fan-out
                // only the first ones do)
                let carries = wire::parse(f.sim.codec, d)
                    .ok()
                    .and_then(|p| p.members)
                    .is_some_and(|ms| ms.iter().any(|m| *m.id() == xid && m.state() == State::Down));
                if let Some(j) = f.sim.node_by_addr(to.addr) {
                    if carries && !failed.contains(&j) {
                        told_directly.push((j, x));
                    }
                }
            }
            f.sim.nodes[x].left_at = Some(t_fail);
        } else {
            f.sim.nodes[x].crashed = true;
        }
    }
    let failed_ids: Vec<Id> = failed.iter().map(|&x| f.sim.nodes[x].node.id()).collect();
    let bound = t_fail + (2 * n as u64 + 1) * p + cfg.s2d;
    let mut watch = |s: &Sim, i: usize, rec: &CallRec| -> Result<(), V> {
        // a member that left stops answering probes
        if s.nodes[i].left_at.is_some() {
            for (to, d) in rec.sends() {
                if let Ok((h, _)) = wire::decode_header(s.codec, d) {
                    ensure!(
                        !matches!(h.message, Message::Ack(_) | Message::IndirectAck { .. } | Message::ForwardedAck { .. } | Message::IndirectPing { .. } | Message::Feed | Message::Ping(_)),
                        "C03/leaver-still-answers",
                        "{:?} left the cluster but sent {:?} to {to:?}",
                        s.nodes[i].node.id(),
                        h.message
                    );
                }
            }
        }
        Ok(())
    };
    f.sim.run_until(bound + 4 * p, acc, &mut watch)?;
    let _ = &mut nop;
    let mut worst_slack: i64 = i64::MAX;
    for i in 0..n {
        if failed.contains(&i) {
            continue;
        }
        for (fi, &x) in failed.iter().enumerate() {
            let fid = failed_ids[fi];
            let when = f.sim.nodes[i].notes.iter().find(|(t, nn)| *t >= t_fail && *nn == N::MemberDown(fid)).map(|(t, _)| *t);
            if listed[i][x] {
                match when {
                    Some(t) => {
                        ensure!(
                            t <= bound,
                            "C03/memberdown-late",
                            "n={n}: survivor {i} reported MemberDown({fid:?}) {} periods after the bound (2n+1)P+S2D",
                            (t - bound) / p
                        );
                        worst_slack = worst_slack.min((bound - t) as i64 / p as i64);
                        if leave && told_directly.contains(&(i, x)) {
                            // told by the leaver itself: immediate, i.e. in the call handling the farewell (one latency)
                            ensure!(t <= t_fail + lat.1, "C03/leave-not-immediate", "recipient {i} of the farewell reported MemberDown {}us after the leave", t - t_fail);
                            acc.tally("leave_farewells_acted_on_immediately", 1);
                        }
                    }
                    None => {
                        return Err(V::new(
                            "C03/memberdown-missing",
                            format!("n={n}: survivor {i} listed {fid:?} as active when it {} at t={t_fail} but never reported MemberDown within (2n+1)P+S2D+4P", if leave { "left" } else { "crashed" }),
                        ))
                    }
                }
            }
        }
        for j in 0..n {
            if !failed.contains(&j) {
                let jid = f.sim.nodes[j].node.id();
                ensure!(
                    !f.sim.nodes[i].notes.iter().any(|(_, nn)| *nn == N::MemberDown(jid)),
                    "C03/survivor-declared-down",
                    "n={n}: survivor {i} declared survivor {jid:?} Down"
                );
            }
        }
    }
    if worst_slack != i64::MAX {
        acc.max("min_slack_periods_inverted_100_minus", (100 - worst_slack.clamp(0, 100)) as u64);
    }
    f.sim.tally_into(acc);
    acc.tally(if leave { "leave_faults" } else { "crash_faults" }, 1);
    acc.tally("failed_members", nf as u64);
    acc.nontrivial(fp(&(cfg_idx, fault_idx, n, nf, leave, skip)));
    acc.sample(|| json!({"workload": "crash", "n": n, "failed": failed, "leave": leave, "fault_after_events": skip, "t_fail_us": t_fail, "bound_us": bound, "cfg": format!("{:?}", f.cfg)}));
    let _ = f.n;
    Ok(())
}

/// Failures in two waves: most of the cluster crashes first (its Down records stay in every survivor's member
/// list, remove_down_after being far away), and once that has been reported one more member crashes. The bound
/// for the second failure counts the members that were alive just before it.
fn c03_staged(ctx: &Ctx, case: u64, acc: &mut Acc) -> Verdict {
    let mut r = Rng64::derive(ctx.seed, 0xC03D, case);
    let nmax = if ctx.tier == Tier::Quick { 14 } else { 22 };
    let n = r.range(5, nmax) as usize;
    let p = 3 * R;
    let cfg = Cfg {
        p,
        r: R,
        k: r.range(1, 3) as usize,
        tx: r.range(1, 10) as u8,
        s2d: r.range(2, 4) * p,
        // far away, or so short that the Down records of the first wave are forgotten one by one while the
        // survivors carry on (each forget-timer must leave the count of active members alone)
        rda: 86_400_000_000, // see below
        mps: 1400,
        notify_down: r.chance(1, 2),
        pa: None,
        pad: None,
        pg: if r.chance(1, 2) { Some((p / 2, 2)) } else { None },
    };
    // remove_down_after: far away, or just long enough for every survivor to have declared the first wave Down
    // before the first Down record is forgotten (shorter than that, a crashed member is legitimately re-learned
    // from stale gossip and the statement's bound does not apply); the second failure then comes after the
    // forgetting: each forget-timer must leave the count of active members alone
    let mut cfg = cfg;
    let forgetting = case % 2 == 1;
    if forgetting {
        cfg.rda = (2 * n as u64 + 1) * p + cfg.s2d + p * (case / 2 % 4);
    }
    let lat = if r.chance(1, 2) { (1, R * 9 / 10) } else { (1, R / 4) };
    let Some(mut f) = formed(r.next(), n, &cfg, Renew::None, lat, acc)? else {
        acc.inconclusive += 1;
        return Ok(());
    };
    let mut nop = |_: &Sim, _: usize, _: &CallRec| -> Result<(), V> { Ok(()) };
    let t_rand = f.sim.now + r.below(3 * p);
    f.sim.run_until(t_rand, acc, &mut nop)?;
    // wave 1
    let live1 = r.range(2, 4.min(n as u64 - 1)) as usize;
    let mut order: Vec<usize> = (0..n).collect();
    r.shuffle(&mut order);
    let survivors: Vec<usize> = order[..live1].to_vec();
    let wave1: Vec<usize> = order[live1..].to_vec();
    let ids: Vec<Id> = f.sim.nodes.iter().map(|x| x.node.id()).collect();
    let t1 = f.sim.now;
    for &x in &wave1 {
        f.sim.nodes[x].crashed = true;
    }
    let bound1 = t1 + (2 * n as u64 + 1) * p + cfg.s2d;
    f.sim.run_until(bound1, acc, &mut nop)?;
    for &s in &survivors {
        for &x in &wave1 {
            ensure!(
                f.sim.nodes[s].notes.iter().any(|(t, nn)| *t >= t1 && *nn == N::MemberDown(ids[x])),
                "C03/memberdown-missing",
                "n={n}: survivor {s} never reported MemberDown({:?}) within (2n+1)P+S2D after {} members crashed at once",
                ids[x],
                wave1.len()
            );
        }
    }
    // wave 2, some time later (after the Down records of the first wave have been forgotten, when they are to be)
    let t_gap = f.sim.now + r.below(4 * p) + if forgetting { cfg.rda + 2 * p } else { 0 };
    f.sim.run_until(t_gap, acc, &mut nop)?;
    let x = survivors[r.usize(live1)];
    let t2 = f.sim.now;
    let listed: Vec<bool> = (0..n).map(|i| i != x && f.sim.lists(i, x)).collect();
    f.sim.nodes[x].crashed = true;
    let bound2 = t2 + (2 * live1 as u64 + 1) * p + cfg.s2d;
    f.sim.run_until(bound2 + 4 * p, acc, &mut nop)?;
    let mut slack = i64::MAX;
    for &s in &survivors {
        if s == x {
            continue;
        }
        ensure!(listed[s], "C03/harness", "survivor {s} did not list {x} before the second failure");
        let when = f.sim.nodes[s].notes.iter().find(|(t, nn)| *t >= t2 && *nn == N::MemberDown(ids[x])).map(|(t, _)| *t);
        match when {
            Some(t) => {
                ensure!(
                    t <= bound2,
                    "C03/memberdown-late",
                    "n={n}, {} Down records held, {live1} members alive: survivor {s} reported the second failure ({:?}) {} periods after the bound (2n'+1)P+S2D with n'={live1}",
                    wave1.len(),
                    ids[x],
                    (t - bound2) / p + 1
                );
                slack = slack.min((bound2 - t) as i64 / p as i64);
            }
            None => {
                return Err(V::new(
                    "C03/memberdown-missing",
                    format!("n={n}, {} Down records held, {live1} members alive: survivor {s} never reported the second failure ({:?})", wave1.len(), ids[x]),
                ))
            }
        }
        for &j in &survivors {
            if j != x {
                ensure!(!f.sim.nodes[s].notes.iter().any(|(_, nn)| *nn == N::MemberDown(ids[j])), "C03/survivor-declared-down", "n={n}: survivor {s} declared survivor {:?} Down", ids[j]);
            }
        }
    }
    if slack != i64::MAX {
        acc.max("staged_min_slack_periods_inverted_100_minus", (100 - slack.clamp(0, 100)) as u64);
    }
    f.sim.tally_into(acc);
    acc.tally("staged_cases", 1);
    acc.tally("down_records_held_at_second_failure", wave1.len() as u64);
    acc.nontrivial(fp(&("staged", n, live1, case)));
    acc.sample(|| json!({"workload": "staged", "n": n, "first_wave": wave1.len(), "alive_before_second_failure": live1, "slack_periods": slack}));
    Ok(())
}

/// A newcomer announces and leaves again right away: before its Feed arrives (it has no active member
/// yet, but the seed already lists it), just after, or a little later.
fn c03_leave_early(ctx: &Ctx, case: u64, acc: &mut Acc) -> Verdict {
    let mut r = Rng64::derive(ctx.seed, 0xC03E, case);
    let n = r.range(2, 6) as usize; // members of the formed cluster
    let p = 3 * R;
    let cfg = Cfg {
        p,
        r: R,
        k: r.range(1, 3) as usize,
        tx: r.range(1, 10) as u8,
        s2d: r.range(2, 4) * p,
        rda: 86_400_000_000,
        mps: 1400,
        notify_down: r.chance(1, 2),
        pa: None,
        pad: None,
        pg: if r.chance(1, 2) { Some((p / 2, 2)) } else { None },
    };
    let Some(mut f) = formed(r.next(), n, &cfg, Renew::None, (1, R / 4), acc)? else {
        acc.inconclusive += 1;
        return Ok(());
    };
    let x = f.sim.add(n as u16, cfg.clone(), Renew::None, HdlCfg::disabled(), None);
    let xid = f.sim.nodes[x].node.id();
    let seed_node = r.usize(n);
    let dst = f.sim.nodes[seed_node].node.id();
    let mut nop = |_: &Sim, _: usize, _: &CallRec| -> Result<(), V> { Ok(()) };
    f.sim.call(x, Op::Announce(dst), acc)?;
    // leave after: nothing / half a latency / the Feed round trip / a couple of periods
    let delay = match case % 4 {
        0 => 0,
        1 => R / 8,
        2 => R / 2 + r.below(R / 4),
        _ => r.range(p, 3 * p),
    };
    let t = f.sim.now + delay;
    f.sim.run_until(t, acc, &mut nop)?;
    let had_members = f.sim.nodes[x].node.last.num_members;
    let rec = f.sim.call(x, Op::Leave, acc)?;
    let t_leave = f.sim.now;
    ensure!(rec.res == Res::Ok, "C03/leave-error", "leave_cluster returned {:?}", rec.res);
    ensure!(rec.has_note(&N::Defunct), "C03/leaver-not-defunct", "leave_cluster (with {had_members} active members known) did not notify Defunct");
    f.sim.nodes[x].left_at = Some(t_leave);
    let total = n + 1;
    let bound = t_leave + (2 * total as u64 + 1) * p + cfg.s2d;
    let mut watch = |s: &Sim, i: usize, rec: &CallRec| -> Result<(), V> {
        if s.nodes[i].left_at.is_some() {
            for (to, d) in rec.sends() {
                if let Ok((h, _)) = wire::decode_header(s.codec, d) {
                    ensure!(
                        !matches!(h.message, Message::Ack(_) | Message::IndirectAck { .. } | Message::ForwardedAck { .. } | Message::IndirectPing { .. } | Message::Feed | Message::Ping(_) | Message::PingReq { .. }),
                        "C03/leaver-still-answers",
                        "{:?} left the cluster {}us ago (knowing {had_members} members at the time) but sent {:?} to {to:?}",
                        s.nodes[i].node.id(),
                        s.now - t_leave,
                        h.message
                    );
                }
            }
            ensure!(!rec.has_note(&N::Active), "C03/leaver-active-again", "{:?} reported Active after leaving", s.nodes[i].node.id());
        }
        Ok(())
    };
    f.sim.run_until(bound + (2 * total as u64 + 3) * p, acc, &mut watch)?;
    // whoever came to list the leaver must report it down in time, and must not list it at the end
    for i in 0..n {
        let ups: Vec<u64> = f.sim.nodes[i].notes.iter().filter(|(_, nn)| *nn == N::MemberUp(xid)).map(|(t, _)| *t).collect();
        let downs: Vec<u64> = f.sim.nodes[i].notes.iter().filter(|(_, nn)| *nn == N::MemberDown(xid)).map(|(t, _)| *t).collect();
        if let Some(t_up) = ups.first() {
            ensure!(!downs.is_empty(), "C03/memberdown-missing", "instance {i} learned about {xid:?} (which left {delay}us after announcing) but never reported it Down");
            // the statement's bound runs from the failure for those that listed the member then; an instance that
            // only hears of the (already gone) member later through stale gossip gets the same allowance from then
            let deadline = bound.max(*t_up + (2 * total as u64 + 1) * p + cfg.s2d);
            ensure!(downs[0] <= deadline, "C03/memberdown-late", "instance {i} reported the early leaver Down {} periods after the bound", (downs[0] - deadline) / p);
        }
        ensure!(!f.sim.lists(i, x), "C03/leaver-still-listed", "instance {i} still lists the leaver {xid:?} as active at the end");
    }
    acc.tally("early_leave_cases", 1);
    if had_members == 0 {
        acc.tally("early_leaves_before_first_member_known", 1);
    }
    acc.nontrivial(fp(&("early", case, n, delay, had_members)));
    acc.sample(|| json!({"workload": "leave_early", "n": n, "leave_delay_us": delay, "members_known_at_leave": had_members}));
    Ok(())
}

/// 'farewell': what leave_cluster hands to the runtime, on packets so small that not every pending update fits.
/// The leaver holds fresh news of several sizes (identities encode to different lengths) when it leaves. Each of
/// its first max_transmissions farewell datagrams still has Down(self) pending when it is filled, so it may omit
/// it only if it would not fit in the space that datagram leaves unused; and the member told by a datagram that
/// carries it reports MemberDown in the very call that handles it.
fn c03_farewell(ctx: &Ctx, case: u64, acc: &mut Acc) -> Verdict {
    use crate::node::Node;
    let mut r = Rng64::derive(ctx.seed, 0xC03F, case);
    let me = Id::new(r.range(1, 7) as u16, r.below(2) as u8);
    let codec = crate::gen::codec(&mut r);
    let mut cfg = Cfg::simple();
    cfg.mps = r.range(14, 48) as usize;
    cfg.tx = r.range(1, 5) as u8;
    cfg.k = r.range(1, 4) as usize;
    let mut l = Node::new(me, cfg.clone(), codec, HdlCfg::disabled(), r.next());
    let m = r.range(1, 6);
    for _ in 0..m {
        let mut a = r.range(1, 9) as u16;
        if a == me.addr {
            a = 9;
        }
        let u = Member::new(Id::new(a, r.below(2) as u8), crate::gen::small_inc(&mut r), if r.chance(1, 4) { State::Suspect } else { State::Alive });
        let rec = l.call(Op::Apply(vec![u], true));
        ensure!(rec.res.is_ok(), "C03/harness", "apply_many on the future leaver returned {:?}", rec.res);
    }
    let known = l.last.num_members;
    // premise: every header the leaver may have to write (plus the update count) fits a packet; below that an
    // encode error from leave_cluster is the documented outcome, not a finding
    let widest = l.last.state.iter().map(|x| wire::encode_header(codec, &Header { src: me, src_incarnation: 0, dst: *x.id(), message: Message::Gossip }).len()).max().unwrap_or(0);
    let rec = l.call(Op::Leave);
    if widest + 2 > cfg.mps {
        acc.tally("farewell_cases_packet_smaller_than_a_header", 1);
        return Ok(());
    }
    ensure!(rec.res == Res::Ok, "C03/leave-error", "leave_cluster returned {:?} (max_packet_size {}, widest header {widest})", rec.res, cfg.mps);
    ensure!(rec.has_note(&N::Defunct), "C03/leaver-not-defunct", "leave_cluster did not notify Defunct");
    let down_self = wire::encode_member(codec, &Member::new(me, 0, State::Down));
    let sends: Vec<(Id, Vec<u8>)> = rec.sends().map(|(t, d)| (*t, d.clone())).collect();
    let (mut carried, mut omitted_no_room, mut told) = (0u64, 0u64, 0u64);
    for (i, (to, d)) in sends.iter().enumerate() {
        let p = match wire::parse(codec, d) {
            Ok(p) => p,
            Err(e) => {
                ensure!(false, "C03/farewell-unparsable", "farewell datagram #{i} does not parse: {e}");
                unreachable!()
            }
        };
        ensure!(p.header.message == Message::Gossip, "C03/farewell-kind", "leave_cluster sent {:?}", p.header.message);
        let carries = p.members.as_ref().is_some_and(|ms| ms.iter().any(|x| *x.id() == me && x.state() == State::Down));
        if !carries {
            if i < cfg.tx as usize {
                let need = down_self.len() + if p.members.is_none() { 2 } else { 0 };
                let left = cfg.mps.saturating_sub(d.len());
                ensure!(
                    left < need,
                    "C03/farewell-omits-down",
                    "farewell datagram #{i} of {} to {to:?} ({} of {} bytes used, updates {:?}) leaves out Down({me:?}) ({} bytes) although it is still pending and fits in the {left} bytes left",
                    sends.len(),
                    d.len(),
                    cfg.mps,
                    p.members,
                    down_self.len()
                );
                omitted_no_room += 1;
            }
            continue;
        }
        carried += 1;
        // the member it is told to: lists the leaver, then handles the farewell
        let mut peer = Node::new(*to, cfg.clone(), codec, HdlCfg::disabled(), r.next());
        let up = peer.call(Op::Apply(vec![Member::new(me, 0, State::Alive)], false));
        ensure!(up.has_note(&N::MemberUp(me)), "C03/harness", "the peer did not list the future leaver");
        let got = peer.call(Op::Data(d.clone()));
        ensure!(got.res.is_ok(), "C03/farewell-rejected", "{to:?} handling the farewell returned {:?}", got.res);
        ensure!(got.has_note(&N::MemberDown(me)), "C03/leave-not-immediate", "{to:?} handled a farewell carrying Down({me:?}) without reporting MemberDown");
        told += 1;
    }
    acc.tally("farewell_cases", 1);
    acc.tally("farewell_datagrams", sends.len() as u64);
    acc.tally("farewells_carrying_down_self", carried);
    acc.tally("farewells_without_room_for_down_self", omitted_no_room);
    acc.tally("members_told_reporting_down_at_once", told);
    if known > 0 && !sends.is_empty() {
        acc.nontrivial(fp(&("farewell", case, cfg.mps, known, carried, omitted_no_room)));
    }
    acc.sample(|| json!({"workload": "farewell", "max_packet_size": cfg.mps, "known": known, "datagrams": sends.len(), "carrying_down_self": carried, "no_room": omitted_no_room}));
    Ok(())
}

// ------------------------------------------------------------------ C04

fn c04_envelope_cfg(n: usize, notify: bool) -> Cfg {
    let p = 3 * R;
    Cfg {
        p,
        r: R,
        k: 3,
        tx: (2 * n * n).max(10).min(255) as u8,
        s2d: (2 * n as u64 + 1) * p,
        rda: 86_400_000_000,
        mps: 1400,
        notify_down: notify,
        pa: None,
        pad: None,
        pg: None,
    }
}

fn c04_case(ctx: &Ctx, case: u64, acc: &mut Acc) -> Verdict {
    let per_cfg = 32u64;
    let cfg_idx = case / per_cfg;
    let drop_slot = case % per_cfg;
    let mut r = Rng64::derive(ctx.seed, 0xC04, cfg_idx);
    let nmax = if ctx.tier == Tier::Quick { 6 } else { 11 };
    let n = r.range(2, nmax) as usize;
    let notify = r.chance(1, 2);
    let renew = if r.chance(1, 2) { Renew::Bump } else { Renew::None };
    let wide_latency = r.chance(1, 2);
    let lat = if wide_latency { (1, R * 9 / 10) } else { (1, R / 4) };
    let mut cfg = c04_envelope_cfg(n, notify);
    if r.chance(1, 3) {
        cfg.pg = Some((cfg.p / 2, 2));
    }
    let sim_seed = r.next();
    // periodic announce in a third of the configurations: Announce and the Feed that answers it then flow in the
    // formed cluster too and become drop candidates (the statement names Feed explicitly)
    if r.chance(1, 3) {
        cfg.pa = Some((cfg.p * r.range(1, 3) / 2, r.range(1, 3) as usize));
    }
    // packets with room for exactly one update behind the widest header (or one or two bytes more) in a quarter
    // of the configurations: the suspicion and its refutation then travel one update per datagram
    let tight = r.chance(1, 4);
    if tight {
        // fixed-length identities (addresses that are multiples of 3), so that "exactly one update" is exact
        let a = Id::new(0, 0);
        let hl = wire::encode_header(CodecKind::Hand, &Header { src: a, src_incarnation: 0, dst: a, message: Message::Ping(0) }).len();
        let ml = wire::encode_member(CodecKind::Hand, &Member::new(a, 0, State::Suspect)).len();
        cfg.mps = hl + 2 + ml + r.usize(3);
    }
    let stride = if tight { 3 } else { 1 };
    // reference run: count datagrams in a window of more than one full rotation of every member
    let window = (2 * n as u64 + 1) * cfg.p;
    let Some(mut reference) = formed_stride(sim_seed, n, &cfg, renew, lat, Join::SeqToFirst, stride, acc)? else {
        acc.inconclusive += 1;
        return Ok(());
    };
    let base = reference.sim.sent;
    let t0 = reference.sim.now;
    let mut nop = |_: &Sim, _: usize, _: &CallRec| -> Result<(), V> { Ok(()) };
    reference.sim.run_until(t0 + window, acc, &mut nop)?;
    let in_window = reference.sim.sent - base;
    if in_window == 0 {
        acc.inconclusive += 1;
        return Ok(());
    }
    let ref_quiet = reference.sim.nodes.iter().all(|x| x.notes.iter().all(|(_, n)| matches!(n, N::MemberUp(_) | N::Active)));
    if !ref_quiet || reference.sim.s2d_timers > 0 {
        // the envelope is supposed to make the reference run suspicion-free
        return Err(V::new("C04/reference-run-not-quiet", format!("n={n} lat={lat:?}: the fault-free reference run raised a suspicion")));
    }
    // the datagram to drop: slots partition the window, the offset inside the slot is seeded
    let mut fr = Rng64::derive(ctx.seed ^ 0xd40b, cfg_idx, drop_slot);
    let slot = (in_window / per_cfg).max(1);
    let d = (drop_slot * in_window / per_cfg + fr.below(slot)).min(in_window - 1);
    let Some(mut f) = formed_stride(sim_seed, n, &cfg, renew, lat, Join::SeqToFirst, stride, acc)? else {
        acc.inconclusive += 1;
        return Ok(());
    };
    f.sim.drop_index = Some(base + d);
    let ids: Vec<Id> = f.sim.nodes.iter().map(|x| x.node.id()).collect();
    let heal = (4 * n as u64 + 2) * cfg.p;
    let mut t_drop: Option<u64> = None;
    let mut last_bad: Option<u64> = None;
    let mut saw_suspect = false;
    let mut watch = |_s: &Sim, _i: usize, rec: &CallRec| -> Result<(), V> {
        if rec.post.state.iter().any(|m| m.state() == State::Suspect) {
            saw_suspect = true;
        }
        Ok(())
    };
    let step = cfg.p / 4;
    loop {
        let t = f.sim.now + step;
        f.sim.run_until(t, acc, &mut watch)?;
        if t_drop.is_none() && f.sim.dropped.is_some() {
            t_drop = Some(f.sim.now);
        }
        if let Some(td) = t_drop {
            if !f.sim.full_view_alive() {
                last_bad = Some(f.sim.now);
            }
            // long enough for any suspicion to have run its course
            if f.sim.now > td + heal + cfg.s2d + 2 * cfg.p {
                break;
            }
        } else if f.sim.now > t0 + window + cfg.p {
            break;
        }
    }
    let Some((kind, from, to)) = f.sim.dropped.clone() else {
        acc.inconclusive += 1;
        return Ok(());
    };
    let td = t_drop.unwrap();
    let what = format!("n={n} notify_down={notify} renewable={} latency<{}us: dropped datagram #{d} of the window ({kind} {:?}->{to:?})", renew != Renew::None, lat.1, ids[from]);
    for (i, x) in f.sim.nodes.iter().enumerate() {
        for (t, nn) in &x.notes {
            if *t >= td {
                ensure!(
                    !matches!(nn, N::MemberDown(_) | N::Defunct | N::Rejoin(_) | N::Idle),
                    "C04/live-member-declared-down",
                    "{what}: instance {i} notified {nn:?} at +{} periods",
                    (*t - td) / cfg.p
                );
            }
        }
        ensure!(x.node.id() == ids[i], "C04/identity-changed", "{what}: instance {i} changed identity to {:?}", x.node.id());
    }
    ensure!(f.sim.turnundead_sent == 0, "C04/turnundead-sent", "{what}: {} TurnUndead datagrams were sent although nobody is down", f.sim.turnundead_sent);
    ensure!(f.sim.full_view_alive(), "C04/not-healed", "{what}: some instance still does not list every other as Alive {} periods after the loss", (f.sim.now - td) / cfg.p);
    let healed_after = last_bad.map(|t| (t.saturating_sub(td)) / cfg.p + 1).unwrap_or(0);
    if let Some(t) = last_bad {
        ensure!(t <= td + heal, "C04/heal-too-slow", "{what}: a member was still not listed as Alive {} periods after the loss (bound 4n+2)", (t - td) / cfg.p);
    }
    acc.max("periods_until_all_alive_again", healed_after);
    acc.tally(&format!("dropped/{kind}"), 1);
    acc.tally("single_loss_runs", 1);
    if saw_suspect || f.sim.s2d_timers > 0 {
        acc.tally("runs_with_suspicion_raised_and_refuted", 1);
    }
    if f.sim.pingreq_sent > 0 {
        acc.tally("runs_with_indirect_probe", 1);
    }
    if saw_suspect || f.sim.pingreq_sent > reference.sim.pingreq_sent {
        acc.nontrivial(fp(&(cfg_idx, d, kind.clone())));
    }
    acc.sample(|| json!({"workload": "drop", "case": what, "healed_after_periods": healed_after, "suspicion_seen": saw_suspect}));
    Ok(())
}

/// Outside the deterministic envelope: a realistic configuration (suspicion timeout of 8 probe periods for
/// 10..=14 members, probe_period 1.5 x rtt, one-way latency 0.2 x rtt so that a lost Ping or Ack cannot be
/// absorbed by the indirect probe). Here the refutation has to reach the suspecting member through gossip, which
/// only succeeds with high probability; single cases carry no verdict, the *rate* of cases in which a live member
/// ends up declared Down does (see `c04_aggregate`).
fn c04_realistic(ctx: &Ctx, case: u64, acc: &mut Acc) -> Verdict {
    let per_cfg = 16u64;
    let cfg_idx = case / per_cfg;
    let drop_slot = case % per_cfg;
    let mut r = Rng64::derive(ctx.seed, 0xC04B, cfg_idx);
    let n = r.range(10, 14) as usize;
    let p = R * 3 / 2;
    let cfg = Cfg {
        p,
        r: R,
        k: 3,
        tx: *r.pick(&[4u8, 6, 10]),
        s2d: 8 * p,
        rda: 86_400_000_000,
        mps: 1400,
        notify_down: r.chance(1, 2),
        pa: None,
        pad: None,
        pg: if r.chance(1, 2) { Some((p / 2, 2)) } else { None },
    };
    let lat = (R * 19 / 100, R / 5);
    let renew = if r.chance(1, 2) { Renew::Bump } else { Renew::None };
    let sim_seed = r.next();
    let window = (2 * n as u64 + 1) * cfg.p;
    let Some(mut reference) = formed(sim_seed, n, &cfg, renew, lat, acc)? else {
        acc.inconclusive += 1;
        return Ok(());
    };
    let base = reference.sim.sent;
    let t0 = reference.sim.now;
    let mut nop = |_: &Sim, _: usize, _: &CallRec| -> Result<(), V> { Ok(()) };
    reference.sim.run_until(t0 + window, acc, &mut nop)?;
    let in_window = reference.sim.sent - base;
    let ref_quiet = reference.sim.nodes.iter().all(|x| x.notes.iter().all(|(_, n)| matches!(n, N::MemberUp(_) | N::Active)));
    if in_window == 0 || !ref_quiet || reference.sim.s2d_timers > 0 {
        acc.inconclusive += 1;
        acc.tally("realistic_reference_not_quiet", 1);
        return Ok(());
    }
    let mut fr = Rng64::derive(ctx.seed ^ 0xd40c, cfg_idx, drop_slot);
    let slot = (in_window / per_cfg).max(1);
    let d = (drop_slot * in_window / per_cfg + fr.below(slot)).min(in_window - 1);
    let Some(mut f) = formed(sim_seed, n, &cfg, renew, lat, acc)? else {
        acc.inconclusive += 1;
        return Ok(());
    };
    f.sim.drop_index = Some(base + d);
    f.sim.run_until(t0 + window + cfg.s2d + 6 * cfg.p, acc, &mut nop)?;
    let Some((kind, _, _)) = f.sim.dropped.clone() else {
        acc.inconclusive += 1;
        return Ok(());
    };
    acc.tally("realistic_runs", 1);
    if f.sim.s2d_timers > 0 {
        acc.tally("realistic_runs_with_suspicion", 1);
    }
    let bad = f.sim.nodes.iter().any(|x| x.notes.iter().any(|(_, nn)| matches!(nn, N::MemberDown(_) | N::Defunct | N::Rejoin(_) | N::Idle)));
    if bad {
        acc.tally("realistic_runs_with_live_member_declared_down", 1);
        acc.note(&format!("realistic regime: live member declared Down in case {case} (n={n}, dropped {kind} #{d})"));
        acc.flag("realistic", case);
        if crate::run::tracing() {
            // replayed on its own, the single case is shown as the witness it is
            return Err(V::new("C04/realistic-regime-false-down-rate", format!("n={n} tx={} suspicion timeout 8 periods: dropping {kind} #{d} of the window got a live member declared Down", cfg.tx)));
        }
    }
    if f.sim.s2d_timers > 0 {
        acc.nontrivial(fp(&("realistic", cfg_idx, d)));
    }
    Ok(())
}

/// Rate rule for the realistic regime. On the unchanged tree 0.6-0.7 % of these runs end with a live member
/// declared Down (the rumour of the suspicion never reaches the suspect within 8 periods when
/// max_transmissions is 4..10: inherent to SWIM's probabilistic dissemination, which is why single cases carry
/// no verdict). A change that weakens the refutation path - suspicions or refutations not passed on, incarnation
/// not bumped, timeouts too short - multiplies that rate; 3 % is more than 15 standard deviations above the
/// unchanged rate at the smallest run size used.
fn c04_aggregate(acc: &Acc) -> Option<V> {
    let runs = acc.tallies.get("realistic_runs").copied().unwrap_or(0);
    let bad = acc.tallies.get("realistic_runs_with_live_member_declared_down").copied().unwrap_or(0);
    if runs >= 1_000 && bad * 100 > runs * 3 {
        return Some(V::new(
            "C04/realistic-regime-false-down-rate",
            format!("outside the deterministic envelope (10..=14 members, suspicion timeout 8 periods, max_transmissions 4..10) a single lost datagram got a live member declared Down in {bad} of {runs} runs ({:.1} %); the unchanged tree stays below 1 %", bad as f64 * 100.0 / runs as f64),
        ));
    }
    None
}

// ------------------------------------------------------------------ C05

fn c05_case(ctx: &Ctx, case: u64, acc: &mut Acc) -> Verdict {
    c05_inner(ctx, case, acc, false)
}

/// The regime of the stock configurations, concentrated: members started at the same instant (their periodic
/// timers are aligned), an announce-to-down period longer than the time a member needs to declare an
/// unreachable peer down, symmetric splits. After the heal every member is told it is down in the same round
/// trip, everybody renews at once, every datagram in flight is addressed to an identity that no longer exists:
/// the members of one side lose each other too, and all of them are idle before the periodic task comes round
/// again. They must find each other all the same.
fn c05_lockstep(ctx: &Ctx, case: u64, acc: &mut Acc) -> Verdict {
    c05_inner(ctx, case, acc, true)
}

fn c05_inner(ctx: &Ctx, case: u64, acc: &mut Acc, lockstep: bool) -> Verdict {
    let mut r = Rng64::derive(ctx.seed, if lockstep { 0xC05C } else { 0xC05 }, case);
    let nmax = if ctx.tier == Tier::Quick { 6 } else { 10 };
    let n = r.range(3, nmax) as usize;
    // probe_period 3 x rtt, or 5/3 x rtt as in Config::new_wan
    let p = if (case / 3) % 4 == 3 { R * 5 / 3 } else { 3 * R };
    // the announce-to-down period: shorter than the time a member needs to declare an unreachable peer down
    // (suspect_to_down_after is (2n+1) periods here), or - as in the stock Config::new_lan/new_wan, where it is an
    // order of magnitude longer - longer than that, so that members who lose each other after the heal are all
    // idle before the periodic task comes round again
    let a_periods = if lockstep { 2 * n as u64 + 3 + r.range(1, 12) } else { *r.pick(&[1u64, 2, 4, 2 * n as u64 + 6]) };
    let cfg = Cfg {
        p,
        r: R,
        k: 3,
        tx: r.range(3, 10) as u8,
        // a rotation's worth (as in C04's envelope), or short as in the stock configurations (2..4 periods)
        s2d: if (case / 7) % 2 == 0 { (2 * n as u64 + 1) * p } else { p * (2 + (case / 14) % 3) },
        rda: 86_400_000_000,
        mps: 1400,
        notify_down: true,
        // the stock configurations (Config::new_lan / new_wan) run the ordinary periodic announce alongside
        pa: if Rng64::derive(ctx.seed, 0xC05B, case).chance(1, 2) { Some((p * (2 + case % 5), 1 + (case % 2) as usize)) } else { None },
        pad: Some((a_periods * p, n)),
        pg: if r.chance(1, 2) { Some((p / 2, 2)) } else { None },
    };
    let sim_seed = r.next();
    // joins staggered (timers of different members out of phase) or all at the same instant (aligned timers)
    let join = if lockstep { *r.pick(&[Join::BurstToFirst, Join::Chain, Join::BurstToRandom]) } else { *r.pick(&[Join::SeqToFirst, Join::SeqToFirst, Join::BurstToFirst, Join::Chain]) };
    // a third of the cases with latencies up to 0.9 rtt (indirect probes routinely in play)
    // (only with probe_period = 3 x rtt: a round trip of up to 1.8 x rtt must still fit into one period)
    let lat = if p == 3 * R && Rng64::derive(ctx.seed, 0xC05A, case).chance(1, 3) { (1, R * 9 / 10) } else { (1, R / 4) };
    let Some(mut f) = formed_with(sim_seed, n, &cfg, Renew::Bump, lat, join, acc)? else {
        acc.inconclusive += 1;
        return Ok(());
    };
    acc.tally(&format!("c05_join/{join:?}"), 1);
    acc.tally(if lat.1 > R / 4 { "c05_latency/below_0.9_rtt" } else { "c05_latency/below_rtt_quarter" }, 1);
    let mut nop = |_: &Sim, _: usize, _: &CallRec| -> Result<(), V> { Ok(()) };
    let asymmetric = !lockstep && case % 5 == 4;
    let t0 = f.sim.now;
    let mut part = vec![0u8; n];
    let shape;
    let victim = r.usize(n);
    if asymmetric {
        // a single live member loses all its traffic (both ways, or only inbound)
        // all of its traffic, only what it should receive, or only what it sends (it then hears the cluster
        // declare it down and renews while nobody can hear it)
        let (out, inn) = *r.pick(&[(true, true), (false, true), (true, false)]);
        f.sim.isolate = Some((victim, out, inn));
        shape = format!("asymmetric victim={victim} outbound_lost={out} inbound_lost={inn}");
    } else {
        // every split shape with at least two members on one side: side sizes 1..n-1, membership chosen by seed
        let side1 = if lockstep { (n / 2).max(1) + (case as usize % 2) * (n % 2) } else { 1 + (case as usize / 5) % (n - 1) };
        let mut idx: Vec<usize> = (0..n).collect();
        r.shuffle(&mut idx);
        for &i in idx.iter().take(side1) {
            part[i] = 1;
        }
        f.sim.part = Some(part.clone());
        shape = format!("split {}|{} sides {:?}", side1, n - side1, part);
    }
    // hold until both sides declared each other Down (premise)
    let cross = |i: usize, j: usize| if asymmetric { (i == victim) != (j == victim) } else { part[i] != part[j] };
    let mut mutual = false;
    let hold_max = 8 * n as u64 + 3 * (2 * n as u64 + 1) + 20;
    for k in 1..=hold_max {
        f.sim.run_until(t0 + k * p, acc, &mut nop)?;
        mutual = (0..n).all(|i| {
            (0..n).all(|j| {
                i == j || !cross(i, j) || {
                    let ja = f.sim.nodes[j].node.id().addr;
                    f.sim.nodes[i].node.last.state.iter().any(|m| m.id().addr == ja && m.state() == State::Down)
                }
            })
        });
        if mutual {
            break;
        }
    }
    if !mutual {
        // e.g. inbound-only isolation: the victim keeps hearing nothing and declares everyone down, the others too; if not, premise not met
        acc.inconclusive += 1;
        acc.tally("premise_mutual_down_not_reached", 1);
        return Ok(());
    }
    let ids_before: Vec<Id> = f.sim.nodes.iter().map(|x| x.node.id()).collect();
    // heal at a random instant relative to the timers
    let extra = r.below(3 * p);
    let t_heal = f.sim.now + extra;
    f.sim.run_until(t_heal, acc, &mut nop)?;
    f.sim.part = None;
    f.sim.isolate = None;
    let bound_periods = 4 * a_periods + 4 * n as u64 + 4;
    let mut done: Option<u64> = None;
    for k in 0..=(bound_periods + 6) {
        f.sim.run_until(t_heal + k * p, acc, &mut nop)?;
        if f.sim.full_view() {
            done = Some(k);
            break;
        }
    }
    let what = format!("n={n} {shape} announce-to-down every {a_periods} periods");
    match done {
        Some(k) => {
            ensure!(k <= bound_periods, "C05/converged-too-late", "{what}: converged {k} periods after the heal (bound {bound_periods})");
            acc.max(&format!("periods_to_converge_n{n:02}"), k);
        }
        None => {
            let missing: Vec<(usize, usize)> = (0..n).flat_map(|i| (0..n).map(move |j| (i, j))).filter(|&(i, j)| i != j && !f.sim.lists(i, j)).take(6).collect();
            return Err(V::new("C05/not-converged", format!("{what}: {} periods after the heal these (who, misses whom) pairs remain: {missing:?}", bound_periods + 6)));
        }
    }
    // let in-flight reactions settle, then the view must still be complete
    let t_settle = f.sim.now + 3 * p;
    f.sim.run_until(t_settle, acc, &mut nop)?;
    ensure!(f.sim.full_view(), "C05/view-lost-again", "{what}: the full view was reached but lost again within 3 periods");
    // every instance that was told it is down renewed (never Defunct) with a winning identity and reported Active afterwards
    let mut renewed = 0;
    for (i, x) in f.sim.nodes.iter().enumerate() {
        ensure!(!x.notes.iter().any(|(_, nn)| *nn == N::Defunct), "C05/defunct", "{what}: instance {i} went Defunct");
        let mut cur = Id::new(i as u16, 0);
        let mut last_rejoin: Option<usize> = None;
        for (k, (_, nn)) in x.notes.iter().enumerate() {
            if let N::Rejoin(id) = nn {
                ensure!(id.addr == cur.addr && id.gen > cur.gen, "C05/rejoin-identity", "{what}: instance {i} reported Rejoin({id:?}) while being {cur:?}");
                cur = *id;
                last_rejoin = Some(k);
            }
        }
        ensure!(x.node.id() == cur, "C05/rejoin-identity", "{what}: instance {i} is {:?} but its Rejoin notifications end at {cur:?}", x.node.id());
        if let Some(k) = last_rejoin {
            renewed += 1;
            ensure!(x.notes[k..].iter().any(|(_, nn)| *nn == N::Active), "C05/no-active-after-rejoin", "{what}: instance {i} never reported Active after its last Rejoin");
        }
        ensure!(cur.gen <= ids_before[i].gen.saturating_add(3), "C05/renewal-storm", "{what}: instance {i} renewed {} times after the heal", cur.gen - ids_before[i].gen);
    }
    f.sim.tally_into(acc);
    acc.tally("partitions_healed", 1);
    acc.tally("instances_renewed", renewed);
    acc.tally(if asymmetric { "asymmetric_cases" } else { "split_cases" }, 1);
    acc.nontrivial(fp(&(n, shape.clone(), a_periods, extra)));
    acc.sample(|| json!({"workload": "partition", "case": what, "converged_after_periods": done, "renewed_instances": renewed}));
    Ok(())
}

/// The crate's own stock configuration (`Config::new_lan(n)`: probe period 1 s, rtt 0.5 s, suspicion timeout
/// 4 s x max(1, log10 n), announce-to-down every 65 s to 2 members, periodic announce every 30 s, periodic
/// gossip every 200 ms to 3 members, notify_down_members on). With only two Down members announced to per
/// period no tight bound is deterministic; the oracle is convergence within a generous 12 announce-to-down
/// periods (observed maximum is reported), plus the Rejoin/Defunct/Active clauses.
fn c05_stock(ctx: &Ctx, case: u64, acc: &mut Acc) -> Verdict {
    let mut r = Rng64::derive(ctx.seed, 0xC05F, case);
    let nmax = if ctx.tier == Tier::Quick { 6 } else { 10 };
    let n = r.range(3, nmax) as usize;
    let p = 2 * R;
    let log = (n as f64).log10().max(1.0);
    let cfg = Cfg {
        p,
        r: R,
        k: 3,
        tx: (((n + 1) as f64).log10() * 4.0) as u8,
        s2d: (log * 4.0 * p as f64) as u64,
        rda: 86_400_000_000,
        mps: 1400,
        notify_down: true,
        pa: Some((30 * p, 1)),
        pad: Some((65 * p, 2)),
        pg: Some((p / 5, 3)),
    };
    let join = *r.pick(&[Join::SeqToFirst, Join::BurstToFirst, Join::Chain, Join::SeqToRandom]);
    let Some(mut f) = formed_with(r.next(), n, &cfg, Renew::Bump, (1, R / 4), join, acc)? else {
        acc.inconclusive += 1;
        return Ok(());
    };
    let mut nop = |_: &Sim, _: usize, _: &CallRec| -> Result<(), V> { Ok(()) };
    let side1 = 1 + r.usize(n - 1);
    let mut idx: Vec<usize> = (0..n).collect();
    r.shuffle(&mut idx);
    let mut part = vec![0u8; n];
    for &i in idx.iter().take(side1) {
        part[i] = 1;
    }
    let t0 = f.sim.now;
    f.sim.part = Some(part.clone());
    let mut mutual = false;
    for k in 1..=(8 * n as u64 + 40) {
        f.sim.run_until(t0 + k * p, acc, &mut nop)?;
        mutual = (0..n).all(|i| {
            (0..n).all(|j| {
                i == j || part[i] == part[j] || {
                    let ja = f.sim.nodes[j].node.id().addr;
                    f.sim.nodes[i].node.last.state.iter().any(|m| m.id().addr == ja && m.state() == State::Down)
                }
            })
        });
        if mutual {
            break;
        }
    }
    if !mutual {
        acc.inconclusive += 1;
        acc.tally("premise_mutual_down_not_reached", 1);
        return Ok(());
    }
    let t_heal = f.sim.now + r.below(70 * p);
    f.sim.run_until(t_heal, acc, &mut nop)?;
    f.sim.part = None;
    let a = 65 * p;
    let what = format!("n={n} Config::new_lan({n}) split {side1}|{} sides {:?} joins {join:?}", n - side1, part);
    let mut done = None;
    for k in 0..=(12 * 65) {
        f.sim.run_until(t_heal + k * p, acc, &mut nop)?;
        if f.sim.full_view() {
            done = Some(k);
            break;
        }
    }
    let Some(k) = done else {
        let missing: Vec<(usize, usize)> = (0..n).flat_map(|i| (0..n).map(move |j| (i, j))).filter(|&(i, j)| i != j && !f.sim.lists(i, j)).take(6).collect();
        return Err(V::new("C05/not-converged", format!("{what}: 12 announce-to-down periods after the heal these (who, misses whom) pairs remain: {missing:?}")));
    };
    let _ = a;
    acc.max("stock_config_announce_periods_to_converge_x10", k * 10 / 65 + 1);
    let t_settle = f.sim.now + 5 * p;
    f.sim.run_until(t_settle, acc, &mut nop)?;
    ensure!(f.sim.full_view(), "C05/view-lost-again", "{what}: the full view was reached but lost again within 5 periods");
    for (i, x) in f.sim.nodes.iter().enumerate() {
        ensure!(!x.notes.iter().any(|(_, nn)| *nn == N::Defunct), "C05/defunct", "{what}: instance {i} went Defunct");
        let mut cur = Id::new(i as u16, 0);
        let mut last_rejoin = None;
        for (k, (_, nn)) in x.notes.iter().enumerate() {
            if let N::Rejoin(id) = nn {
                ensure!(id.addr == cur.addr && id.gen > cur.gen, "C05/rejoin-identity", "{what}: instance {i} reported Rejoin({id:?}) while being {cur:?}");
                cur = *id;
                last_rejoin = Some(k);
            }
        }
        ensure!(x.node.id() == cur, "C05/rejoin-identity", "{what}: instance {i} is {:?} but its Rejoin notifications end at {cur:?}", x.node.id());
        if let Some(k) = last_rejoin {
            ensure!(x.notes[k..].iter().any(|(_, nn)| *nn == N::Active), "C05/no-active-after-rejoin", "{what}: instance {i} never reported Active after its last Rejoin");
        }
        ensure!(cur.gen <= 6, "C05/renewal-storm", "{what}: instance {i} renewed {} times", cur.gen);
    }
    f.sim.tally_into(acc);
    acc.tally("stock_config_partitions_healed", 1);
    acc.nontrivial(fp(&("stock", case, n, what.clone())));
    acc.sample(|| json!({"workload": "stock", "case": what, "converged_after_periods": k}));
    Ok(())
}

/// Two partitions in a row, with remove_down_after chosen so that the forget-timers of the first round of Down
/// declarations (they name the identities of *before* the first renewal) fire while the second partition is on
/// and every cross pair is mutually Down again: they must not disturb the Down records of the renewed
/// identities, or nobody is left to announce to after the second heal.
fn c05_repartition(ctx: &Ctx, case: u64, acc: &mut Acc) -> Verdict {
    let mut r = Rng64::derive(ctx.seed, 0xC05D, case);
    let nmax = if ctx.tier == Tier::Quick { 5 } else { 8 };
    let n = r.range(3, nmax) as usize;
    let p = 3 * R;
    let a_periods = *r.pick(&[1u64, 2]);
    let hold_max = 8 * n as u64 + 3 * (2 * n as u64 + 1) + 20;
    let bound_periods = 4 * a_periods + 4 * n as u64 + 4;
    let rda = (2 * hold_max + bound_periods + 30) * p;
    let cfg = Cfg {
        p,
        r: R,
        k: 3,
        tx: r.range(3, 10) as u8,
        s2d: (2 * n as u64 + 1) * p,
        rda,
        mps: 1400,
        notify_down: true,
        pa: if r.chance(1, 3) { Some((3 * p, 1)) } else { None },
        pad: Some((a_periods * p, n)),
        pg: if r.chance(1, 2) { Some((p / 2, 2)) } else { None },
    };
    let join = *r.pick(&[Join::SeqToFirst, Join::BurstToFirst]);
    let Some(mut f) = formed_with(r.next(), n, &cfg, Renew::Bump, (1, R / 4), join, acc)? else {
        acc.inconclusive += 1;
        return Ok(());
    };
    let mut nop = |_: &Sim, _: usize, _: &CallRec| -> Result<(), V> { Ok(()) };
    let mut what = format!("n={n} announce-to-down every {a_periods} periods remove_down_after={} periods", rda / p);
    let mut t_first_partition = 0;
    let mut t_first_mutual = 0;
    for round in 0..2 {
        // split with at least two members on one side
        let side1 = 1 + r.usize(n - 1);
        let mut idx: Vec<usize> = (0..n).collect();
        r.shuffle(&mut idx);
        let mut part = vec![0u8; n];
        for &i in idx.iter().take(side1) {
            part[i] = 1;
        }
        what.push_str(&format!(" | partition {} sides {:?}", round + 1, part));
        let t0 = f.sim.now;
        f.sim.part = Some(part.clone());
        let mut mutual = false;
        for k in 1..=hold_max {
            f.sim.run_until(t0 + k * p, acc, &mut nop)?;
            mutual = (0..n).all(|i| {
                (0..n).all(|j| {
                    i == j || part[i] == part[j] || {
                        let ja = f.sim.nodes[j].node.id().addr;
                        f.sim.nodes[i].node.last.state.iter().any(|m| m.id().addr == ja && m.state() == State::Down)
                    }
                })
            });
            if mutual {
                break;
            }
        }
        if !mutual {
            acc.inconclusive += 1;
            acc.tally("premise_mutual_down_not_reached", 1);
            return Ok(());
        }
        if round == 0 {
            t_first_partition = t0;
            t_first_mutual = f.sim.now;
        } else {
            // keep the second partition on until every forget-timer of the first round has fired
            ensure!(f.sim.now <= t_first_partition + rda, "C05/harness", "second partition reached mutual Down too late for the schedule");
            let until = t_first_mutual + rda + 2 * p;
            f.sim.run_until(until, acc, &mut nop)?;
        }
        let t_heal = f.sim.now + r.below(3 * p);
        f.sim.run_until(t_heal, acc, &mut nop)?;
        f.sim.part = None;
        let mut done: Option<u64> = None;
        for k in 0..=(bound_periods + 6) {
            f.sim.run_until(t_heal + k * p, acc, &mut nop)?;
            if f.sim.full_view() {
                done = Some(k);
                break;
            }
        }
        match done {
            Some(k) => {
                ensure!(k <= bound_periods, "C05/converged-too-late", "{what}: converged {k} periods after heal {} (bound {bound_periods})", round + 1);
                acc.max(&format!("periods_to_converge_after_heal_{}", round + 1), k);
            }
            None => {
                let missing: Vec<(usize, usize)> = (0..n).flat_map(|i| (0..n).map(move |j| (i, j))).filter(|&(i, j)| i != j && !f.sim.lists(i, j)).take(6).collect();
                return Err(V::new("C05/not-converged", format!("{what}: {} periods after heal {} these (who, misses whom) pairs remain: {missing:?}", bound_periods + 6, round + 1)));
            }
        }
        let t_settle = f.sim.now + 3 * p;
        f.sim.run_until(t_settle, acc, &mut nop)?;
        ensure!(f.sim.full_view(), "C05/view-lost-again", "{what}: the full view was reached after heal {} but lost again within 3 periods", round + 1);
    }
    let mut renewed = 0;
    for (i, x) in f.sim.nodes.iter().enumerate() {
        ensure!(!x.notes.iter().any(|(_, nn)| *nn == N::Defunct), "C05/defunct", "{what}: instance {i} went Defunct");
        let mut cur = Id::new(i as u16, 0);
        let mut last_rejoin: Option<usize> = None;
        for (k, (_, nn)) in x.notes.iter().enumerate() {
            if let N::Rejoin(id) = nn {
                ensure!(id.addr == cur.addr && id.gen > cur.gen, "C05/rejoin-identity", "{what}: instance {i} reported Rejoin({id:?}) while being {cur:?}");
                cur = *id;
                last_rejoin = Some(k);
                renewed += 1;
            }
        }
        ensure!(x.node.id() == cur, "C05/rejoin-identity", "{what}: instance {i} is {:?} but its Rejoin notifications end at {cur:?}", x.node.id());
        if let Some(k) = last_rejoin {
            ensure!(x.notes[k..].iter().any(|(_, nn)| *nn == N::Active), "C05/no-active-after-rejoin", "{what}: instance {i} never reported Active after its last Rejoin");
        }
    }
    let forget_fired: usize = f.sim.forget_timers_fired as usize;
    ensure!(forget_fired > 0, "C05/harness", "no forget-timer fired during the second partition");
    f.sim.tally_into(acc);
    acc.tally("repartition_cases", 1);
    acc.tally("forget_timers_fired_during_second_partition", forget_fired as u64);
    acc.tally("renewals_in_repartition_cases", renewed);
    acc.nontrivial(fp(&("repartition", n, what.clone())));
    acc.sample(|| json!({"workload": "repartition", "case": what, "renewals": renewed, "forget_timers_fired": forget_fired}));
    Ok(())
}

pub fn c02() -> Check {
    Check {
        id: "C02",
        level: "exploration",
        rule: "discrete-event simulation of n real instances (2..=8 quick, 2..=24 thorough), every datagram delayed by a seeded latency in [1us, probe_rtt/4), timers exactly on time, 5 join schedules, random fan-out 1..=4, max_transmissions 1..=10, periodic gossip/announce on or off, probe_period in {2.2,3,5} x probe_rtt, packet sizes from header+1 member to 1400, 5 codecs. Safety clause asserted after every call of every instance; discovery clause as bounded progress (4n+4 periods) for every pair related in at least one direction when joining ends (pairs related in neither direction depend on gossip luck and are only tallied). Distinct by (n, schedule, config, codec). Also probe_period 1.1 x rtt; 'long' runs of 300..620 periods (every wrapping counter goes round); 'feedfit': packets exactly large enough to feed the whole cluster with fixed-length identities, where every Feed must list every active member but the receiver (n up to 16 quick / 40 thorough); 'feedfit_var': the same with variable-length identities, statistics only. Two legal set_config calls per run. Rate rule (n <= 8, periodic announce every <= 2 periods): runs that started with unrelated pairs and have no full view after 4n+4 periods must stay below 22 % (unchanged 9-12 %).",
        assumptions: &["transport delivers every datagram with latency < probe_rtt/4 and the runtime fires timers exactly at their deadline (the simulator does)", "discovery bound 4n+4 periods instantiates the statement's 'linear in the cluster size'"],
        required: &["fault_free_runs", "runs_with_complete_relation", "sim_datagram/Ping", "sim_datagram/Feed"],
        workloads: vec![
            Workload { name: "faultfree", f: c02_case, quick: 40_000, thorough: 200_000, flav: Flav::Checked },
            Workload { name: "long", f: c02_long, quick: 480, thorough: 8_000, flav: Flav::Checked },
            Workload { name: "feedfit_var", f: c02_feedfit_var, quick: 4_800, thorough: 40_000, flav: Flav::Checked },
            Workload { name: "feedfit", f: c02_feedfit, quick: 4_800, thorough: 40_000, flav: Flav::Checked },
        ],
        exhaustive: false,
        aggregate: Some(c02_aggregate),
    }
}

pub fn c03() -> Check {
    Check {
        id: "C03",
        level: "fault_enumeration",
        rule: "per configuration (n in 2..=7 quick / 2..=10 thorough, suspect_to_down_after 2..5 periods, seeds) a formed fault-free run is rebuilt deterministically and a fault is injected after a swept number of further events (24 slots covering more than one full probe rotation of every member): singletons, pairs and random subsets up to n-1 members crash or call leave_cluster. Oracle: every survivor that listed a failed member notifies MemberDown by t_fail+(2n+1)P+S2D, no survivor is ever declared Down, recipients of a leaver's farewell report it within one latency, the leaver sends no probe traffic afterwards. Distinct by (configuration, fault slot, subset). Latency below rtt/4 or below 0.9 rtt (indirect probes of live members then complete through ForwardedAck). 'leave_early': a newcomer leaves around the arrival of its own Feed. 'staged': n up to 14 (22 thorough), all but 2..4 members crash first and, once reported, one more crashes while those Down records are still held; bound for the second failure counted from the members alive before it. Half of the staged cases forget the first wave's Down records (remove_down_after = (2n+1)P+S2D+0..3P) before the second failure. 'farewell': a single leaver holding 1..5 fresh updates of different encoded sizes on packets of 14..47 bytes calls leave_cluster; each of its first max_transmissions farewell datagrams may omit Down(self) only if it does not fit in the space that datagram leaves unused, and the addressee (listing the leaver) reports MemberDown in the call that handles a farewell carrying it.",
        assumptions: &["latency < probe_rtt/4, timers on time; remove_down_after far beyond the horizon"],
        required: &["crash_faults", "leave_faults", "farewells_carrying_down_self", "members_told_reporting_down_at_once"],
        workloads: vec![
            Workload { name: "crash", f: c03_case, quick: 12_000, thorough: 240_000, flav: Flav::Checked },
            Workload { name: "leave_early", f: c03_leave_early, quick: 4_000, thorough: 80_000, flav: Flav::Checked },
            Workload { name: "staged", f: c03_staged, quick: 6_400, thorough: 60_000, flav: Flav::Checked },
            Workload { name: "farewell", f: c03_farewell, quick: 60_000, thorough: 1_500_000, flav: Flav::Checked },
        ],
        exhaustive: false,
        aggregate: None,
    }
}

pub fn c04() -> Check {
    Check {
        id: "C04",
        level: "fault_enumeration",
        rule: "inside the deterministic envelope (suspect_to_down_after >= (2n+1)P, max_transmissions >= max(10,2n^2), P = 3R, latency < R/4 or < 0.9R so that indirect-probe relays flow, remove_down_after far away) a formed run is rebuilt per fault and exactly one datagram of a window covering more than one full rotation of every member is dropped (32 slots per configuration, seeded offset inside the slot), n in 2..=6 quick / 2..=11 thorough, notify_down_members on/off, renewable or not. Oracle: no MemberDown/Defunct/Rejoin/Idle anywhere, no TurnUndead datagram at all, identities unchanged, everyone lists everyone as Alive again within 4n+2 periods. Non-trivial: a suspicion was raised or extra indirect probes ran. Distinct by (configuration, dropped index, kind). A third of the configurations run the periodic announce (Announce/Feed become drop candidates). 'realistic': outside the envelope (10..=14 members, suspicion timeout 8 periods, probe_period 1.5 x rtt, latency 0.2 x rtt, max_transmissions 4..10) single cases carry no verdict; the rate of runs ending with a live member declared Down must stay below 3 % (unchanged tree: 0.6-0.7 %), decided over the merged run. A quarter of the configurations: fixed-length identities and max_packet_size = Ping header + count + one update (+0..2).",
        assumptions: &["the envelope makes SWIM's refutation race deterministic; outside it the property is probabilistic and carries no verdict"],
        required: &["single_loss_runs", "runs_with_suspicion_raised_and_refuted", "dropped/Ping", "dropped/Ack", "dropped/Feed", "dropped/Gossip"],
        workloads: vec![
            Workload { name: "drop", f: c04_case, quick: 16_000, thorough: 320_000, flav: Flav::Checked },
            Workload { name: "realistic", f: c04_realistic, quick: 8_000, thorough: 160_000, flav: Flav::Checked },
        ],
        exhaustive: false,
        aggregate: Some(c04_aggregate),
    }
}

pub fn c05() -> Check {
    Check {
        id: "C05",
        level: "exploration",
        rule: "formed clusters of 3..=6 (quick) / 3..=10 (thorough) renewable instances with notify_down_members and announce-to-down (num_members >= n) are partitioned (side sizes 1..n-1 cycled by case index, members of the sides seeded; every 5th case isolates a single member: both ways, inbound only or outbound only), held until every cross pair is mutually Down (premise, else inconclusive), healed at a seeded instant. Oracle: full mutual view under current identities within 4A+(4n+4) periods; told-down instances report Rejoin with a winning identity, never Defunct, then Active. Distinct by (n, shape, A, heal offset). A third of the cases with latencies up to 0.9 rtt, half with the ordinary periodic announce alongside. 'repartition': two partitions in a row with remove_down_after chosen so that the forget-timers of the first round fire while the second partition is on; convergence is required after both heals. Announce-to-down period also longer than the time to declare a peer down (2n+6 periods); suspicion timeout (2n+1) or 2..4 periods; probe_period 3 or 5/3 x rtt. 'lockstep': members started at the same instant, symmetric splits, announce-to-down period of 2n+4..2n+15 periods. 'stock': exactly the parameters of Config::new_lan(n) (announce-to-down every 65 periods to 2 members), convergence within 12 announce-to-down periods.",
        assumptions: &["announce-to-down num_members >= n so that every Down record is announced to each period (with fewer, which record is picked is random and no finite bound is deterministic)"],
        required: &["partitions_healed", "instances_renewed", "split_cases", "asymmetric_cases"],
        workloads: vec![
            Workload { name: "partition", f: c05_case, quick: 16_000, thorough: 200_000, flav: Flav::Checked },
            Workload { name: "lockstep", f: c05_lockstep, quick: 16_000, thorough: 200_000, flav: Flav::Checked },
            Workload { name: "stock", f: c05_stock, quick: 1_600, thorough: 40_000, flav: Flav::Checked },
            Workload { name: "repartition", f: c05_repartition, quick: 2_400, thorough: 20_000, flav: Flav::Checked },
        ],
        exhaustive: false,
        aggregate: None,
    }
}
