//! Checks decided by the always-on boundary monitors over shared workloads:
//! C07, C08, C09, C10, C13, C19.
use crate::mon::Arm;
use crate::run::{Acc, Check, Ctx, Flav, Verdict, Workload};
use crate::work::chaos::{self, ChaosStats};

fn chaos_for(id: &'static str, interesting: fn(&ChaosStats) -> bool) -> impl Fn(&Ctx, u64, &mut Acc) -> Verdict {
    move |ctx, case, acc| {
        let opts = chaos::default_opts(Arm::only(id), ctx);
        chaos::run_with(ctx, case, acc, &opts, interesting)
    }
}

macro_rules! chaos_fn {
    ($name:ident, $id:expr, $int:expr) => {
        fn $name(ctx: &Ctx, case: u64, acc: &mut Acc) -> Verdict {
            chaos_for($id, $int)(ctx, case, acc)
        }
    };
}

chaos_fn!(chaos_c07, "C07", |s| s.sends >= 20);
chaos_fn!(chaos_c08, "C08", |s| s.calls >= 50);
chaos_fn!(chaos_c09, "C09", |s| s.own_addr_records > 0 || s.identity_changes > 0);
chaos_fn!(chaos_c10, "C10", |s| s.sends >= 20);
chaos_fn!(chaos_c11, "C11", |s| s.timers >= 10);
chaos_fn!(chaos_c12, "C12", |s| s.timers >= 10);
chaos_fn!(chaos_c13, "C13", |s| s.timers >= 10);
chaos_fn!(chaos_c15, "C15", |s| s.sends >= 20);
chaos_fn!(chaos_c16, "C16", |s| s.sends >= 20);
chaos_fn!(chaos_c19, "C19", |s| s.own_addr_records > 0);

macro_rules! driver_fn {
    ($name:ident, $id:expr, $int:expr) => {
        fn $name(ctx: &Ctx, case: u64, acc: &mut Acc) -> Verdict {
            let st = crate::work::driver::driver_case(ctx, case, acc, Arm::only($id), 300)?;
            let f: fn(&crate::work::driver::DriverStats) -> bool = $int;
            if f(&st) {
                acc.nontrivial(crate::util::fp(&(case, st.calls, st.sends, st.timers, st.identity_changes, st.errors)));
            }
            Ok(())
        }
    };
}
driver_fn!(driver_c07, "C07", |s| s.sends >= 20);
driver_fn!(driver_c08, "C08", |s| s.calls >= 50);
driver_fn!(driver_c09, "C09", |s| s.own_addr_records > 0 || s.identity_changes > 0);
driver_fn!(driver_c10, "C10", |s| s.self_updates > 0);
driver_fn!(driver_c11, "C11", |s| s.timers >= 10);
driver_fn!(driver_c12, "C12", |s| s.timers >= 10);
driver_fn!(driver_c13, "C13", |s| s.timers >= 10);
driver_fn!(driver_c15, "C15", |s| s.sends >= 20);
driver_fn!(driver_c16, "C16", |s| s.sends >= 20);
driver_fn!(driver_c19, "C19", |s| s.own_addr_records > 0);

macro_rules! exh_fn {
    ($name:ident, $id:expr) => {
        fn $name(ctx: &Ctx, case: u64, acc: &mut Acc) -> Verdict {
            let depth = if ctx.tier == crate::run::Tier::Quick { 4 } else { 5 };
            crate::work::exh::exh_case(ctx, case, acc, Arm::only($id), depth)
        }
    };
}
exh_fn!(exh_c07, "C07");
exh_fn!(exh_c08, "C08");
exh_fn!(exh_c09, "C09");
exh_fn!(exh_c10, "C10");
exh_fn!(exh_c11, "C11");
exh_fn!(exh_c12, "C12");
exh_fn!(exh_c13, "C13");
exh_fn!(exh_c15, "C15");
exh_fn!(exh_c19, "C19");

macro_rules! simmon_fn {
    ($name:ident, $id:expr) => {
        fn $name(ctx: &Ctx, case: u64, acc: &mut Acc) -> Verdict {
            crate::work::simmon::simmon_case(ctx, case, acc, Arm::only($id))
        }
    };
}
simmon_fn!(simmon_c07, "C07");
simmon_fn!(simmon_c08, "C08");
simmon_fn!(simmon_c09, "C09");
simmon_fn!(simmon_c10, "C10");
simmon_fn!(simmon_c11, "C11");
simmon_fn!(simmon_c12, "C12");
simmon_fn!(simmon_c13, "C13");
simmon_fn!(simmon_c15, "C15");
simmon_fn!(simmon_c16, "C16");
simmon_fn!(simmon_c19, "C19");

macro_rules! wrap_fn {
    ($name:ident, $id:expr) => {
        fn $name(ctx: &Ctx, case: u64, acc: &mut Acc) -> Verdict {
            crate::work::wrapmon::wrap_case(ctx, case, acc, Arm::only($id))
        }
    };
}
wrap_fn!(wrap_c08, "C08");
wrap_fn!(wrap_c10, "C10");
wrap_fn!(wrap_c11, "C11");
wrap_fn!(wrap_c12, "C12");
wrap_fn!(wrap_c13, "C13");

macro_rules! sweep_fn {
    ($name:ident, $id:expr) => {
        fn $name(ctx: &Ctx, case: u64, acc: &mut Acc) -> Verdict {
            crate::work::sweep::sweep_case(ctx, case, acc, Arm::only($id))
        }
    };
}
fn big_c07(ctx: &Ctx, case: u64, acc: &mut Acc) -> Verdict {
    crate::checks::c06::big_items_case(ctx, case, acc, Arm::only("C07"))
}
fn big_c16(ctx: &Ctx, case: u64, acc: &mut Acc) -> Verdict {
    crate::checks::c06::big_items_case(ctx, case, acc, Arm::only("C16"))
}
sweep_fn!(sweep_c07, "C07");
sweep_fn!(sweep_c15, "C15");
sweep_fn!(sweep_c16, "C16");

const ASSUME: &[&str] = &[
    "user-supplied Identity has a total conflict order; Codec/Handler/Runtime do not panic",
    "the harness Runtime hands every scheduled timer back at most once (exactly once for C13)",
];

pub fn c07() -> Check {
    Check {
        id: "C07",
        level: "exploration",
        rule: "every datagram passed to Runtime::send_to along chaos-net histories (2..=5 real instances, 5 codecs, random legal configs, drops/duplicates/reordering, identity changes, leave/reuse, custom broadcasts) is parsed by an independent grammar parser; datagrams delivered to the exact identity they were handed over for must not be rejected with Decode/MalformedPacket/DataTooBig. Non-trivial: case produced >= 20 datagrams; distinct by case fingerprint.",
        assumptions: ASSUME,
        required: &["chaos_datagrams", "chaos_exact_deliveries"],
        workloads: vec![
            Workload { name: "chaos", f: chaos_c07, quick: 40_000, thorough: 1_000_000, flav: Flav::Checked },
            Workload { name: "driver", f: driver_c07, quick: 60_000, thorough: 1_500_000, flav: Flav::Checked },
            Workload { name: "exh", f: exh_c07, quick: 1_024, thorough: 1_024, flav: Flav::Checked },
            Workload { name: "simmon", f: simmon_c07, quick: 3_000, thorough: 80_000, flav: Flav::Checked },
            Workload { name: "sweep", f: sweep_c07, quick: 2_200, thorough: 55_000, flav: Flav::Checked },
            Workload { name: "big", f: big_c07, quick: 400, thorough: 20_000, flav: Flav::Plain },
        ],
        exhaustive: false,
        aggregate: None,
    }
}
pub fn c08() -> Check {
    Check {
        id: "C08",
        level: "exploration",
        rule: "notification stream replayed against iter_members()/num_members() after every call and against a 3-state connection automaton, over chaos-net histories. Non-trivial: >= 50 calls.",
        assumptions: ASSUME,
        required: &["note/MemberUp", "note/Active"],
        workloads: vec![
            Workload { name: "chaos", f: chaos_c08, quick: 40_000, thorough: 1_000_000, flav: Flav::Checked },
            Workload { name: "driver", f: driver_c08, quick: 60_000, thorough: 1_500_000, flav: Flav::Checked },
            Workload { name: "exh", f: exh_c08, quick: 1_024, thorough: 1_024, flav: Flav::Checked },
            Workload { name: "simmon", f: simmon_c08, quick: 3_000, thorough: 80_000, flav: Flav::Checked },
            Workload { name: "wrap", f: wrap_c08, quick: 480, thorough: 12_000, flav: Flav::Checked },
            Workload { name: "accrt", f: crate::checks::c08x::accrt_case, quick: 16_000, thorough: 400_000, flav: Flav::Checked },
        ],
        exhaustive: false,
        aggregate: None,
    }
}
pub fn c09() -> Check {
    Check {
        id: "C09",
        level: "exploration",
        rule: "iter_membership_state() inspected after every call of chaos-net histories: distinct addresses, own address never active, size bounded by addresses presented, identities only replaced by conflict winners with Rename, payload of Down/superseded senders discarded. Non-trivial: an identity changed or a record bearing the own address was held. No record may change unless the call names its address (sender, listed members, apply_many arguments, the subject of a suspicion/forget timer, the member whose probe round a probe timer closes, the instance's own addresses).",
        assumptions: ASSUME,
        required: &["chaos_calls"],
        workloads: vec![
            Workload { name: "chaos", f: chaos_c09, quick: 40_000, thorough: 1_000_000, flav: Flav::Checked },
            Workload { name: "driver", f: driver_c09, quick: 60_000, thorough: 1_500_000, flav: Flav::Checked },
            Workload { name: "exh", f: exh_c09, quick: 1_024, thorough: 1_024, flav: Flav::Checked },
            Workload { name: "simmon", f: simmon_c09, quick: 3_000, thorough: 80_000, flav: Flav::Checked },
        ],
        exhaustive: false,
        aggregate: None,
    }
}
pub fn c10() -> Check {
    Check {
        id: "C10",
        level: "exploration",
        rule: "header incarnations and update sections of every outgoing datagram checked against a fold of the self-directed updates presented to the instance; reaction to Down(self)/TurnUndead checked. Non-trivial: >= 20 datagrams. 'tie': stand-alone identity whose renew() saturates the generation while a nonce changes (a renewed identity that differs but does not win), bundled Postcard codec: Rejoin only with an identity that differs and wins, otherwise Defunct and silence.",
        assumptions: ASSUME,
        required: &["headers_checked"],
        workloads: vec![
            Workload { name: "chaos", f: chaos_c10, quick: 40_000, thorough: 1_000_000, flav: Flav::Checked },
            Workload { name: "driver", f: driver_c10, quick: 60_000, thorough: 1_500_000, flav: Flav::Checked },
            Workload { name: "exh", f: exh_c10, quick: 1_024, thorough: 1_024, flav: Flav::Checked },
            Workload { name: "simmon", f: simmon_c10, quick: 3_000, thorough: 80_000, flav: Flav::Checked },
            Workload { name: "wrap", f: wrap_c10, quick: 480, thorough: 12_000, flav: Flav::Checked },
            Workload { name: "tie", f: crate::checks::c10x::tie_case, quick: 20_000, thorough: 400_000, flav: Flav::Checked },
        ],
        exhaustive: false,
        aggregate: None,
    }
}
pub fn c11() -> Check {
    Check {
        id: "C11",
        level: "exploration",
        rule: "every ChangeSuspectToDown delivery judged against the record seen through iter_membership_state() just before it and the epoch inferred from notifications: effective ones must produce Down + MemberDown + forget-timer + gossip entry (+TurnUndead iff configured), cancelled/stale ones must have no effect at all; Down records tracked for finality. Workloads: chaos net, single-instance driver, enumerated interleaving table. Non-trivial: >= 10 timer deliveries (chaos/driver), every table cell.",
        assumptions: ASSUME,
        required: &["timeouts_effective", "timeouts_cancelled", "timeouts_stale_epoch"],
        workloads: vec![
            Workload { name: "chaos", f: chaos_c11, quick: 40_000, thorough: 1_000_000, flav: Flav::Checked },
            Workload { name: "driver", f: driver_c11, quick: 60_000, thorough: 1_500_000, flav: Flav::Checked },
            Workload { name: "exh", f: exh_c11, quick: 1_024, thorough: 1_024, flav: Flav::Checked },
            Workload { name: "simmon", f: simmon_c11, quick: 3_000, thorough: 80_000, flav: Flav::Checked },
            Workload { name: "wrap", f: wrap_c11, quick: 480, thorough: 12_000, flav: Flav::Checked },
            Workload { name: "table", f: crate::checks::tables::c11_table, quick: 9_520, thorough: 9_520, flav: Flav::Checked },
        ],
        exhaustive: false,
        aggregate: None,
    }
}
pub fn c12() -> Check {
    Check {
        id: "C12",
        level: "exploration",
        rule: "probe-round shadow (target, number, helpers asked, evidence accepted) rebuilt from sent/received datagrams and timers; verdict at the next probe timer; responder rules checked on every accepted datagram. Non-trivial: >= 10 timer deliveries. A probe timer with no completed round to judge must not schedule a suspicion timeout nor turn anybody Suspect.",
        assumptions: ASSUME,
        required: &["rounds_started", "rounds_with_evidence", "rounds_without_evidence", "pingreqs_sent"],
        workloads: vec![
            Workload { name: "chaos", f: chaos_c12, quick: 40_000, thorough: 1_000_000, flav: Flav::Checked },
            Workload { name: "driver", f: driver_c12, quick: 60_000, thorough: 1_500_000, flav: Flav::Checked },
            Workload { name: "exh", f: exh_c12, quick: 1_024, thorough: 1_024, flav: Flav::Checked },
            Workload { name: "simmon", f: simmon_c12, quick: 3_000, thorough: 80_000, flav: Flav::Checked },
            Workload { name: "wrap", f: wrap_c12, quick: 480, thorough: 12_000, flav: Flav::Checked },
            Workload { name: "table", f: crate::checks::tables::c12_table, quick: 1_080, thorough: 1_080, flav: Flav::Checked },
        ],
        exhaustive: false,
        aggregate: None,
    }
}
pub fn c13() -> Check {
    Check {
        id: "C13",
        level: "exploration",
        rule: "multiset of outstanding timers tracked from submit_after and deliveries; exactly-one probe/periodic timer per active epoch; stale timers must have no effect. Non-trivial: >= 10 timer deliveries. set_config attempts to switch periodic tasks on/off at runtime are part of the histories (a task that is enabled must have its timer). 'wrap': 270..600 epoch changes per history through every bump site (idle, change_identity, leave+reuse, auto-rejoin) with the timers of earlier epochs handed back before and after each change, never more than ~60 changes late.",
        assumptions: ASSUME,
        required: &["timers_delivered", "epochs_started"],
        workloads: vec![
            Workload { name: "chaos", f: chaos_c13, quick: 40_000, thorough: 1_000_000, flav: Flav::Checked },
            Workload { name: "driver", f: driver_c13, quick: 60_000, thorough: 1_500_000, flav: Flav::Checked },
            Workload { name: "exh", f: exh_c13, quick: 1_024, thorough: 1_024, flav: Flav::Checked },
            Workload { name: "simmon", f: simmon_c13, quick: 3_000, thorough: 80_000, flav: Flav::Checked },
            Workload { name: "wrap", f: wrap_c13, quick: 480, thorough: 12_000, flav: Flav::Checked },
        ],
        exhaustive: false,
        aggregate: None,
    }
}
pub fn c15() -> Check {
    Check {
        id: "C15",
        level: "exploration",
        rule: "lock-step replay of every call through the C01 join model decides which updates are accepted for broadcast; every piggybacking datagram is accounted against the shadow backlog (byte-identical entry, transmissions left, one per address, nothing that fits omitted, precedence), non-piggybacking kinds must consume nothing, and the shadow is compared with updates_backlog() and the hook snapshot after every call. Non-trivial: >= 20 datagrams.",
        assumptions: ASSUME,
        required: &["updates_piggybacked", "updates_accepted_for_broadcast", "piggybacking_datagrams_accounted"],
        workloads: vec![
            Workload { name: "chaos", f: chaos_c15, quick: 40_000, thorough: 1_000_000, flav: Flav::Checked },
            Workload { name: "driver", f: driver_c15, quick: 60_000, thorough: 1_500_000, flav: Flav::Checked },
            Workload { name: "exh", f: exh_c15, quick: 1_024, thorough: 1_024, flav: Flav::Checked },
            Workload { name: "simmon", f: simmon_c15, quick: 3_000, thorough: 80_000, flav: Flav::Checked },
            Workload { name: "sweep", f: sweep_c15, quick: 2_200, thorough: 55_000, flav: Flav::Checked },
        ],
        exhaustive: false,
        aggregate: None,
    }
}
pub fn c16() -> Check {
    Check {
        id: "C16",
        level: "exploration",
        rule: "instrumented BroadcastHandler (unique item tags, three invalidation relations, random recipient predicates); shadow backlog of accepted items; every datagram tail accounted; receiver-side handler log compared with the items sent; broadcast() op-level rules. Non-trivial: >= 20 datagrams. A datagram that does not parse while a pending item lost a transmission in that call is a violation. Half of the handlers accept empty items.",
        assumptions: ASSUME,
        required: &["custom_items_sent", "custom_items_received", "broadcast_calls"],
        workloads: vec![
            Workload { name: "chaos", f: chaos_c16, quick: 40_000, thorough: 1_000_000, flav: Flav::Checked },
            Workload { name: "driver", f: driver_c16, quick: 60_000, thorough: 1_500_000, flav: Flav::Checked },
            Workload { name: "sweep", f: sweep_c16, quick: 2_200, thorough: 55_000, flav: Flav::Both },
            Workload { name: "big", f: big_c16, quick: 400, thorough: 20_000, flav: Flav::Plain },
            Workload { name: "simmon", f: simmon_c16, quick: 3_000, thorough: 80_000, flav: Flav::Checked },
        ],
        exhaustive: false,
        aggregate: None,
    }
}
pub fn c19() -> Check {
    Check {
        id: "C19",
        level: "exploration",
        rule: "destination of every send_to compared with the instance's own address along chaos-net histories with renewals, restarts and echoes of own past identities. Non-trivial: the instance held a record bearing its own address at some point.",
        assumptions: ASSUME,
        required: &["destinations_checked"],
        workloads: vec![
            Workload { name: "chaos", f: chaos_c19, quick: 40_000, thorough: 1_000_000, flav: Flav::Checked },
            Workload { name: "driver", f: driver_c19, quick: 60_000, thorough: 1_500_000, flav: Flav::Checked },
            Workload { name: "exh", f: exh_c19, quick: 1_024, thorough: 1_024, flav: Flav::Checked },
            Workload { name: "simmon", f: simmon_c19, quick: 3_000, thorough: 80_000, flav: Flav::Checked },
        ],
        exhaustive: false,
        aggregate: None,
    }
}
