//! C17 — deterministic, and rejected input leaves no trace (twin runs).
use crate::ensure;
use crate::ids::Id;
use crate::mon::presented::{presented, Presented, Reject};
use crate::mon::Arm;
use crate::node::{CallRec, Node, Op, Res, EK};
use crate::run::{Acc, Check, Ctx, Flav, Verdict, Workload, V};
use crate::util::{fp, Rng64};
use crate::wire;
use crate::work::driver::Driver;
use foca::{Header, Member, Message, State, Timer};
use serde_json::json;

/// Generate a base history with the driver (monitors off) and return the ops
/// together with what the first execution did.
fn base_history(ctx: &Ctx, case: u64, steps: usize, acc: &mut Acc) -> Result<(Driver, Vec<CallRec>), V> {
    let mut d = Driver::new(ctx, 0xC17, case, Arm::default());
    d.dup_timers = true;
    let mut log = vec![];
    for _ in 0..steps {
        match d.step(acc)? {
            Some(rec) => {
                let p = rec.res.is_panic();
                log.push(rec);
                if p {
                    break;
                }
            }
            None => break,
        }
    }
    Ok((d, log))
}

fn fresh_twin(ctx: &Ctx, case: u64) -> Node {
    // same construction as Driver::new → identical seed, config, codec, handler
    Driver::new(ctx, 0xC17, case, Arm::default()).node
}

fn same_effects(a: &CallRec, b: &CallRec) -> bool {
    a.res == b.res && a.evs == b.evs && a.post == b.post && a.hlog.len() == b.hlog.len()
}

#[derive(Clone, Copy, Debug, PartialEq, Eq, Hash)]
enum Class {
    Oversize,
    Undecodable,
    FromOurselves,
    TrailingByte,
    AnnouncePayload,
    NotForUs,
    StaleTimer,
    NotUndead,
    SameIdentity,
    InvalidConfig,
    EmptyBroadcast,
    OversizeBroadcast,
}
const CLASSES: [Class; 12] = [
    Class::Oversize,
    Class::Undecodable,
    Class::FromOurselves,
    Class::TrailingByte,
    Class::AnnouncePayload,
    Class::NotForUs,
    Class::StaleTimer,
    Class::NotUndead,
    Class::SameIdentity,
    Class::InvalidConfig,
    Class::EmptyBroadcast,
    Class::OversizeBroadcast,
];

fn valid_datagram(n: &Node, r: &mut Rng64, src: Id, dst: Id, msg: Message<Id>) -> Vec<u8> {
    let h = Header { src, src_incarnation: r.below(3) as u16, dst, message: msg.clone() };
    let members: Option<Vec<Member<Id>>> = if wire::piggybacks(&msg) {
        Some(
            (0..r.below(3))
                .map(|_| Member::new(Id::new(r.range(1, 5) as u16, r.below(3) as u8), r.below(3) as u16, *r.pick(&[State::Alive, State::Suspect, State::Down])))
                .collect(),
        )
    } else {
        None
    };
    wire::build(n.codec, &h, members.as_deref(), &[])
}

fn any_msg(r: &mut Rng64) -> Message<Id> {
    let t = Id::new(r.range(1, 5) as u16, r.below(3) as u8);
    match r.below(9) {
        0 => Message::Ping(r.next() as u8),
        1 => Message::Ack(r.next() as u8),
        2 => Message::PingReq { target: t, probe_number: 1 },
        3 => Message::IndirectPing { origin: t, probe_number: 1 },
        4 => Message::IndirectAck { target: t, probe_number: 1 },
        5 => Message::ForwardedAck { origin: t, probe_number: 1 },
        6 => Message::Gossip,
        7 => Message::Feed,
        _ => Message::TurnUndead,
    }
}

/// Build a rejected input of the class for the instance's current state, and
/// the result it must produce. None when the class does not apply right now.
fn rejected_input(n: &Node, r: &mut Rng64, class: Class) -> Option<(Op, Res)> {
    let me = n.id();
    let peer = Id::new(r.range(1, 5) as u16, r.below(3) as u8);
    match class {
        Class::Oversize => {
            let mut d = valid_datagram(n, r, peer, me, Message::Gossip);
            d.resize(n.cfg.mps + 1 + r.usize(16), 0);
            Some((Op::Data(d), Res::Err(EK::DataTooBig)))
        }
        Class::Undecodable => {
            let m = any_msg(r);
            let mut d = valid_datagram(n, r, peer, me, m);
            if r.chance(1, 2) {
                d.truncate(r.usize(d.len()));
            } else {
                for _ in 0..r.range(1, 3) {
                    let i = r.usize(d.len());
                    d[i] ^= 1 << r.below(8);
                }
            }
            Some((Op::Data(d), Res::Err(EK::Decode)))
        }
        Class::FromOurselves => {
            let src = if r.chance(1, 2) { me } else { Id::new(me.addr, r.below(4) as u8) };
            let m = any_msg(r);
            Some((Op::Data(valid_datagram(n, r, src, me, m)), Res::Err(EK::DataFromOurselves)))
        }
        Class::TrailingByte => {
            let h = Header { src: peer, src_incarnation: 0, dst: me, message: any_msg(r) };
            let mut d = wire::encode_header(n.codec, &h);
            d.push(r.next() as u8);
            Some((Op::Data(d), Res::Err(EK::MalformedPacket)))
        }
        Class::AnnouncePayload => {
            let h = Header { src: peer, src_incarnation: 0, dst: me, message: Message::Announce };
            let mut d = wire::encode_header(n.codec, &h);
            let k = 2 + r.usize(6);
            d.extend(r.bytes(k));
            Some((Op::Data(d), Res::Err(EK::MalformedPacket)))
        }
        Class::NotForUs => {
            let dst = if r.chance(1, 2) {
                let g = (me.gen as u64 + 1 + r.below(3)) as u8 % 4;
                if g == me.gen {
                    return None;
                }
                Id::new(me.addr, g)
            } else {
                Id::new(r.range(6, 9) as u16, 0)
            };
            let m = any_msg(r);
            Some((Op::Data(valid_datagram(n, r, peer, dst, m)), Res::Ok))
        }
        Class::StaleTimer => {
            let tok = n.last.snap.timer_token.wrapping_sub(1 + r.below(3) as u8);
            let t = match r.below(6) {
                0 => Timer::ProbeRandomMember(tok),
                1 => Timer::SendIndirectProbe { probed_id: peer, token: tok },
                2 => {
                    // aim at a real record so that only the token protects it
                    let (id, inc) = n.last.state.first().map(|m| (*m.id(), m.incarnation())).unwrap_or((peer, 0));
                    Timer::ChangeSuspectToDown { member_id: id, incarnation: inc, token: tok }
                }
                3 => Timer::PeriodicAnnounce(tok),
                4 => Timer::PeriodicAnnounceDown(tok),
                _ => Timer::PeriodicGossip(tok),
            };
            Some((Op::Timer(t), Res::Ok))
        }
        Class::NotUndead => (n.last.snap.connection_state != 2).then_some((Op::Reuse, Res::Err(EK::NotUndead))),
        Class::SameIdentity => Some((Op::ChangeId(me), Res::Err(EK::SameIdentity))),
        Class::InvalidConfig => {
            let mut c = n.cfg.clone();
            match r.below(5) {
                0 => c.p += 1 + r.below(1000),
                1 => c.r += 1 + r.below(1000),
                2 if c.pa.is_none() => c.pa = Some((1_000_000, 1)),
                3 if c.pad.is_none() => c.pad = Some((1_000_000, 1)),
                4 if c.pg.is_none() => c.pg = Some((1_000_000, 1)),
                _ => c.p += 7,
            }
            // also scramble the rest: nothing of it may stick
            c.tx = c.tx.wrapping_add(3).max(1);
            c.mps += 13;
            Some((Op::SetConfig(c), Res::Err(EK::InvalidConfig)))
        }
        Class::EmptyBroadcast => Some((Op::AddBroadcast(vec![]), Res::Err(EK::MalformedPacket))),
        Class::OversizeBroadcast => {
            let k = n.cfg.mps + 1 + r.usize(8);
            Some((Op::AddBroadcast(r.bytes(k)), Res::Err(EK::DataTooBig)))
        }
    }
}

fn twin_case(ctx: &Ctx, case: u64, acc: &mut Acc) -> Verdict {
    let mut scratch = Acc::default();
    let steps = 120;
    let (_d, log1) = base_history(ctx, case, steps, &mut scratch)?;
    if log1.last().is_some_and(|r| r.res.is_panic()) {
        acc.inconclusive += 1;
        return Ok(());
    }
    // (1) determinism: replay the same ops on a fresh twin
    let mut n2 = fresh_twin(ctx, case);
    for (i, r1) in log1.iter().enumerate() {
        let r2 = n2.call(r1.op.clone());
        ensure!(
            same_effects(r1, &r2),
            "C17/nondeterminism",
            "call {i} {} differs between two executions of the same history:\n  first:  {}\n  second: {}",
            r1.op.name(),
            r1.short(),
            r2.short()
        );
    }
    acc.tally("histories_replayed_identically", 1);

    // (2)+(3) insert rejected inputs into a third execution
    let mut r = Rng64::derive(ctx.seed, 0x17C, case);
    let mut n3 = fresh_twin(ctx, case);
    let n_ins = r.range(1, 5) as usize;
    let mut points: Vec<usize> = (0..n_ins).map(|_| r.usize(log1.len() + 1)).collect();
    points.sort();
    let mut classes_used = vec![];
    let mut pi = 0;
    for i in 0..=log1.len() {
        while pi < points.len() && points[pi] == i {
            pi += 1;
            let class = CLASSES[((case as usize) + pi * 5 + r.usize(3)) % CLASSES.len()];
            let Some((op, want)) = rejected_input(&n3, &mut r, class) else { continue };
            // verify the class with the harness's own staged parse
            let before = n3.last.clone();
            let cfg_before = n3.cfg.clone();
            let rec = n3.call(op);
            if let Op::Data(_) = &rec.op {
                let p = presented(&rec, n3.codec);
                let ok = match (class, &p) {
                    (Class::Oversize, Presented::Rejected(Reject::TooBig)) => true,
                    (Class::Undecodable, Presented::Rejected(Reject::HeaderUndecodable | Reject::MemberUndecodable)) => true,
                    (Class::FromOurselves, Presented::Rejected(Reject::FromOurselves)) => true,
                    (Class::TrailingByte | Class::AnnouncePayload, Presented::Rejected(Reject::MalformedAfterHeader)) => true,
                    (Class::NotForUs, Presented::Rejected(Reject::NotForUs)) => true,
                    _ => false,
                };
                if !ok {
                    // the corruption did not land in the intended class (e.g. a bit flip that
                    // keeps the datagram valid): this third execution is now a different history
                    acc.tally("insertions_not_in_class_run_abandoned", 1);
                    return Ok(());
                }
            }
            if rec.res.is_panic() {
                acc.inconclusive += 1;
                return Ok(());
            }
            ensure!(rec.res == want, "C17/rejected-input-result", "{class:?} returned {:?}, expected {want:?}: {}", rec.res, rec.short());
            ensure!(rec.evs.is_empty(), "C17/rejected-input-effect", "{class:?} emitted {:?}", rec.evs);
            ensure!(rec.post == before, "C17/rejected-input-changed-state", "{class:?} changed the observable state");
            ensure!(n3.cfg == cfg_before, "C17/rejected-input-changed-config", "{class:?} changed the configuration");
            acc.tally(&format!("inserted/{class:?}"), 1);
            classes_used.push(class);
        }
        if i == log1.len() {
            break;
        }
        let r1 = &log1[i];
        let r3 = n3.call(r1.op.clone());
        ensure!(
            same_effects(r1, &r3),
            "C17/rejected-input-left-a-trace",
            "after inserting {:?}, call {i} {} differs from the undisturbed history:\n  undisturbed: {}\n  disturbed:   {}",
            classes_used,
            r1.op.name(),
            r1.short(),
            r3.short()
        );
    }
    // RNG position: the next random-dependent outputs must agree as well
    let mut n1 = fresh_twin(ctx, case);
    for r1 in &log1 {
        n1.call(r1.op.clone());
    }
    for j in 0..4 {
        let a = n1.call(Op::Gossip);
        let b = n3.call(Op::Gossip);
        ensure!(same_effects(&a, &b), "C17/rng-position", "gossip #{j} after the history differs: {} vs {}", a.short(), b.short());
        let t = Timer::ProbeRandomMember(n1.last.snap.timer_token);
        let a = n1.call(Op::Timer(t.clone()));
        let b = n3.call(Op::Timer(t));
        ensure!(same_effects(&a, &b), "C17/rng-position", "probe #{j} after the history differs: {} vs {}", a.short(), b.short());
        if a.res.is_panic() {
            break;
        }
    }
    if !classes_used.is_empty() {
        acc.nontrivial(fp(&(case, format!("{classes_used:?}"), points)));
    }
    acc.tally("twin_runs_completed", 1);
    acc.sample(|| json!({"workload": "twin", "case": case, "history_len": log1.len(), "inserted": format!("{classes_used:?}")}));
    Ok(())
}

/// "A stale-epoch timer changes nothing", with real timers and a long life: several hundred connection epochs on
/// one instance (the 8-bit epoch token goes all the way round), and after every epoch change the timers the
/// instance itself scheduled in the epochs just ended are handed back - while it is idle and after it has become
/// active again. Each must return Ok, emit nothing and leave the observable state (hook snapshot included)
/// exactly as it was.
fn wrap_case(ctx: &Ctx, case: u64, acc: &mut Acc) -> Verdict {
    let mut r = Rng64::derive(ctx.seed, 0x17D, case);
    let mut cfg = crate::node::Cfg::simple();
    cfg.notify_down = r.chance(1, 2);
    cfg.pg = Some((cfg.p / 2, 2));
    if r.chance(1, 2) {
        cfg.pa = Some((cfg.p * 3, 1));
        cfg.pad = Some((cfg.p * 4, 2));
    }
    let pol = if r.chance(1, 2) { crate::ids::Renew::Bump } else { crate::ids::Renew::None };
    let mut node = Node::new(Id::with(0, 0, pol), cfg, crate::codecs::CodecKind::Hand, crate::bcast::HdlCfg::disabled(), r.next());
    let total = 270 + r.below(330);
    let pre = r.below(total);
    let kinds = [r.below(3), r.below(3)];
    // timers of the running epoch / of epochs that have ended (at most three epochs old)
    let mut current: Vec<Timer<Id>> = vec![];
    let mut ended: Vec<(u64, Timer<Id>)> = vec![];
    let mut handed_back = 0u64;
    let mut while_active = 0u64;
    macro_rules! go {
        ($op:expr) => {{
            let rec = node.call($op);
            if rec.res.is_panic() {
                acc.inconclusive += 1;
                return Ok(());
            }
            for (t, _) in rec.scheds() {
                if !matches!(t, Timer::RemoveDown(_)) {
                    current.push(t.clone());
                }
            }
            rec
        }};
    }
    for i in 0..total {
        let kind = if i < pre { kinds[0] } else { kinds[1] };
        let peer = Id::new(1 + (i % 5) as u16, ((i / 5) % 250) as u8);
        // (re)activate: the timers scheduled from here on belong to the new epoch
        let before = current.len();
        let rec = go!(Op::Apply(vec![Member::new(peer, (i % 5) as u16, State::Alive)], r.chance(1, 2)));
        let _ = (before, rec);
        // stale timers handed back while active in a later epoch
        for _ in 0..r.below(3) {
            if ended.is_empty() {
                break;
            }
            let (_, t) = ended.swap_remove(r.usize(ended.len()));
            let rec = node.call(Op::Timer(t.clone()));
            ensure!(rec.res == Res::Ok, "C17/rejected-input-result", "timer {t:?} of an ended epoch returned {:?} (epoch change #{i})", rec.res);
            ensure!(rec.evs.is_empty(), "C17/rejected-input-effect", "timer {t:?} of an ended epoch emitted {:?} (epoch change #{i}, current token {})", rec.evs, rec.pre.snap.timer_token);
            ensure!(rec.pre == rec.post, "C17/rejected-input-changed-state", "timer {t:?} of an ended epoch changed the observable state (epoch change #{i})");
            handed_back += 1;
            while_active += u64::from(rec.pre.snap.connection_state == 1);
        }
        // end the epoch
        match kind {
            0 => {
                let actives: Vec<Id> = node.last.active.clone();
                let ups: Vec<Member<Id>> = actives.iter().map(|m| Member::new(*m, u16::MAX, State::Down)).collect();
                go!(Op::Apply(ups, false));
            }
            1 => {
                let me = node.id();
                go!(Op::ChangeId(Id::with(me.addr, me.gen.wrapping_add(1), pol)));
            }
            _ => {
                go!(Op::Leave);
                go!(Op::Reuse);
            }
        }
        // everything scheduled so far belongs to epochs that have ended (the ops above schedule nothing that
        // belongs to the next one: the instance is not active)
        if node.last.snap.connection_state != 1 {
            for t in current.drain(..) {
                ended.push((i, t));
            }
        }
        ended.retain(|(e, _)| i - *e <= 3);
        for _ in 0..r.below(2) {
            if ended.is_empty() {
                break;
            }
            let (_, t) = ended.swap_remove(r.usize(ended.len()));
            let rec = node.call(Op::Timer(t.clone()));
            ensure!(rec.res == Res::Ok, "C17/rejected-input-result", "timer {t:?} of an ended epoch returned {:?} (epoch change #{i})", rec.res);
            ensure!(rec.evs.is_empty(), "C17/rejected-input-effect", "timer {t:?} of an ended epoch emitted {:?} (epoch change #{i})", rec.evs);
            ensure!(rec.pre == rec.post, "C17/rejected-input-changed-state", "timer {t:?} of an ended epoch changed the observable state (epoch change #{i})");
            handed_back += 1;
        }
    }
    acc.tally("wrap_histories", 1);
    acc.tally("real_stale_timers_handed_back", handed_back);
    acc.tally("real_stale_timers_handed_back_while_active_again", while_active);
    acc.max("epoch_changes_in_one_history", total);
    acc.nontrivial(fp(&("wrap", case, total, pre, kinds)));
    acc.sample(|| json!({"workload": "wrap", "epoch_changes": total, "stale_timers_handed_back": handed_back, "of_which_while_active_again": while_active}));
    Ok(())
}

pub fn check() -> Check {
    Check {
        id: "C17",
        level: "exploration",
        rule: "base histories of 120 calls from the single-instance driver (crafted/corrupted datagrams, timers in/out of order, every API method) executed three times on fresh instances with the same seed: twice verbatim (determinism) and once with 1..=5 rejected inputs of 12 classes inserted at random points (class verified by the harness's own staged parse); every undisturbed call must produce identical results, datagrams, timers, notifications and post-state, and the RNG position is compared through 8 further random-dependent calls. Non-trivial: at least one insertion; distinct by (case, classes, points). 'wrap': 270..600 epoch changes on one instance; the real timers of the epochs just ended are handed back while idle and while active again and must have no effect at all.",
        assumptions: &["the harness handler/codec are deterministic"],
        required: &["twin_runs_completed", "inserted/StaleTimer", "inserted/Undecodable", "inserted/NotForUs", "inserted/InvalidConfig"],
        workloads: vec![
            Workload { name: "twin", f: twin_case, quick: 48_000, thorough: 600_000, flav: Flav::Checked },
            Workload { name: "wrap", f: wrap_case, quick: 480, thorough: 12_000, flav: Flav::Checked },
        ],
        exhaustive: false,
        aggregate: None,
    }
}
