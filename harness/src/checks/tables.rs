//! Enumerated interleaving tables for C11 (suspicion timeout vs refutations)
//! and C12 (who answers a probe, with which number, when).
use crate::bcast::HdlCfg;
use crate::codecs::CodecKind;
use crate::ids::{Id, Renew};
use crate::mon::{Arm, Watch};
use crate::node::{CallRec, Cfg, Node, Op};
use crate::run::{Acc, Ctx, Verdict, V};
use crate::util::fp;
use crate::wire;
use foca::{Header, Member, Message, State, Timer};
use serde_json::json;

const ME: Id = Id::new(0, 0);
const M: Id = Id::new(1, 1);
const M_OLD: Id = Id::new(1, 0);
const M_NEW: Id = Id::new(1, 2);
const X: Id = Id::new(2, 0);
const H: Id = Id::new(3, 0);
const U: Id = Id::new(9, 0);

struct T {
    node: Node,
    watch: Watch,
    probe: Option<Timer<Id>>,
    indirect: Option<Timer<Id>>,
    s2d: Vec<Timer<Id>>,
    remove: Vec<Timer<Id>>,
}

impl T {
    fn new(cfg: Cfg, arm: Arm, policy: Renew, seed: u64) -> Self {
        let hcfg = HdlCfg::disabled();
        T {
            node: Node::new(Id::with(0, 0, policy), cfg, CodecKind::Hand, hcfg, seed),
            watch: Watch::new(CodecKind::Hand, arm, false, hcfg),
            probe: None,
            indirect: None,
            s2d: vec![],
            remove: vec![],
        }
    }
    fn exec(&mut self, op: Op, acc: &mut Acc) -> Result<CallRec, V> {
        let rec = self.node.call(op);
        self.watch.observe(&rec, acc)?;
        for (t, _) in rec.scheds() {
            match t {
                Timer::ProbeRandomMember(_) => self.probe = Some(t.clone()),
                Timer::SendIndirectProbe { .. } => self.indirect = Some(t.clone()),
                Timer::ChangeSuspectToDown { .. } => self.s2d.push(t.clone()),
                Timer::RemoveDown(_) => self.remove.push(t.clone()),
                _ => {}
            }
        }
        Ok(rec)
    }
    fn data(&mut self, src: Id, inc: u16, msg: Message<Id>, ups: &[Member<Id>], acc: &mut Acc) -> Result<CallRec, V> {
        let me = self.node.id();
        let h = Header { src, src_incarnation: inc, dst: me, message: msg };
        let d = wire::build(CodecKind::Hand, &h, Some(ups), &[]);
        self.exec(Op::Data(d), acc)
    }
    /// run probe rounds (acknowledging every Ping except those to `victim`) until `victim` has failed a round
    fn fail_probe_of(&mut self, victim: Id, acc: &mut Acc) -> Result<bool, V> {
        for _ in 0..12 {
            let Some(t) = self.probe.take() else { return Ok(false) };
            let before = self.s2d.len();
            let rec = self.exec(Op::Timer(t), acc)?;
            if self.s2d.len() > before {
                return Ok(true);
            }
            let ping = rec.sends().find_map(|(to, d)| match wire::decode_header(CodecKind::Hand, d) {
                Ok((h, _)) => match h.message {
                    Message::Ping(n) => Some((*to, n)),
                    _ => None,
                },
                _ => None,
            });
            if let Some((to, n)) = ping {
                if to != victim {
                    let inc = self.node.last.rec_for_addr(to.addr).map(|m| m.incarnation()).unwrap_or(0);
                    self.data(to, inc, Message::Ack(n), &[], acc)?;
                }
            }
            if let Some(t) = self.indirect.take() {
                self.exec(Op::Timer(t), acc)?;
            }
        }
        Ok(false)
    }
}

const C11_OPS: usize = 13;

fn c11_prefix(t: &mut T, code: usize, i: u16, acc: &mut Acc) -> Result<(), V> {
    match code {
        0 => {}
        1 => {
            t.data(M, i, Message::Gossip, &[], acc)?;
        }
        2 => {
            t.data(M, i + 1, Message::Gossip, &[], acc)?;
        }
        3 => {
            t.data(X, 0, Message::Gossip, &[Member::new(M, i + 1, State::Suspect)], acc)?;
        }
        4 => {
            t.data(X, 0, Message::Gossip, &[Member::new(M, i, State::Down)], acc)?;
        }
        5 => {
            t.exec(Op::Apply(vec![Member::new(M_NEW, 0, State::Alive)], true), acc)?;
        }
        6 => {
            t.exec(Op::Apply(vec![Member::new(M_NEW, i, State::Suspect)], true), acc)?;
        }
        7 => {
            t.exec(Op::Apply(vec![Member::new(M_NEW, 0, State::Down)], true), acc)?;
        }
        8 => {
            // forget-timers that are outstanding (effective only for Down records)
            let rs = std::mem::take(&mut t.remove);
            for r in rs {
                t.exec(Op::Timer(r), acc)?;
            }
        }
        9 => {
            // epoch change: everybody goes down (idle), then someone comes back
            let downs: Vec<Member<Id>> = t.node.last.state.iter().filter(|m| m.state() != State::Down).map(|m| Member::new(*m.id(), m.incarnation(), State::Down)).collect();
            t.exec(Op::Apply(downs, false), acc)?;
            t.exec(Op::Apply(vec![Member::new(U, 0, State::Alive)], false), acc)?;
        }
        10 => {
            t.exec(Op::Leave, acc)?;
            t.exec(Op::Reuse, acc)?;
            t.exec(Op::Apply(vec![Member::new(U, 0, State::Alive)], false), acc)?;
        }
        11 => {
            let me = t.node.id();
            t.exec(Op::ChangeId(Id::with(me.addr, me.gen + 1, me.policy)), acc)?;
            t.exec(Op::Apply(vec![Member::new(U, 1, State::Alive)], false), acc)?;
        }
        _ => {
            // M is forgotten and re-learned under an older generation (the corner the statement leaves open)
            t.exec(Op::Apply(vec![Member::new(M, i, State::Down)], false), acc)?;
            let rs = std::mem::take(&mut t.remove);
            for r in rs {
                t.exec(Op::Timer(r), acc)?;
            }
            t.exec(Op::Apply(vec![Member::new(M_OLD, i, State::Alive)], false), acc)?;
        }
    }
    Ok(())
}

/// case → (notify_down, prefix length 0..=3, prefix codes)
pub fn c11_table(ctx: &Ctx, case: u64, acc: &mut Acc) -> Verdict {
    let total: u64 = 1 + C11_OPS as u64 + (C11_OPS * C11_OPS) as u64 + (C11_OPS * C11_OPS * C11_OPS) as u64;
    let notify = (case / total) % 2 == 0;
    let mut k = case % total;
    let mut codes: Vec<usize> = vec![];
    for len in 0..=3u32 {
        let n = (C11_OPS as u64).pow(len);
        if k < n {
            let mut x = k;
            for _ in 0..len {
                codes.push((x % C11_OPS as u64) as usize);
                x /= C11_OPS as u64;
            }
            break;
        }
        k -= n;
    }
    let mut cfg = Cfg::simple();
    cfg.notify_down = notify;
    cfg.k = 2;
    let inc = ((case / (2 * total)) % 2) as u16 * 3; // incarnation of the suspected member: 0 or 3
    let mut t = T::new(cfg, Arm::only("C11"), Renew::None, ctx.seed ^ case);
    t.exec(Op::Apply(vec![Member::new(M, inc, State::Alive), Member::new(X, 0, State::Alive), Member::new(H, 0, State::Alive)], true), acc)?;
    if !t.fail_probe_of(M, acc)? {
        acc.inconclusive += 1;
        return Ok(());
    }
    let timer = t.s2d.last().cloned().expect("suspicion timer");
    for c in &codes {
        if t.node.poisoned {
            acc.inconclusive += 1;
            return Ok(());
        }
        c11_prefix(&mut t, *c, inc, acc)?;
    }
    // the timeout fires, and once more (duplicate)
    t.exec(Op::Timer(timer.clone()), acc)?;
    t.exec(Op::Timer(timer), acc)?;
    // finally everything else that is outstanding
    let rest = std::mem::take(&mut t.s2d);
    for s in rest {
        t.exec(Op::Timer(s), acc)?;
    }
    acc.tally("c11_table_cells", 1);
    acc.nontrivial(fp(&(notify, inc, &codes)));
    acc.exhaustive_parts.insert(format!("C11 table: every sequence of 0..=3 of {C11_OPS} refutation/renewal/epoch-change operations between raising a real suspicion and its timeout, x notify_down_members x suspected incarnation {{0,3}}"));
    acc.sample(|| json!({"workload": "c11_table", "notify_down": notify, "suspected_incarnation": inc, "prefix": codes}));
    Ok(())
}

pub fn c11_table_cells() -> u64 {
    let total: u64 = 1 + C11_OPS as u64 + (C11_OPS * C11_OPS) as u64 + (C11_OPS * C11_OPS * C11_OPS) as u64;
    4 * total
}

/// C12 table: who answers (target / asked helper / un-asked member / unknown / Down member) x probe number
/// (previous, current, next) x message (Ack, ForwardedAck) x arrival (before the indirect timer, between, after
/// the next round began) x fan-out 1..=3 x an optional membership change during the round.
pub fn c12_table(ctx: &Ctx, case: u64, acc: &mut Acc) -> Verdict {
    let mut c = case;
    let mut take = |n: u64| {
        let v = c % n;
        c /= n;
        v
    };
    let sender_kind = take(5);
    let nr_delta = take(3) as i16 - 1;
    let fwd = take(2) == 1;
    let arrival = take(3);
    let k = 1 + take(3) as usize;
    let change = take(4);
    let mut cfg = Cfg::simple();
    cfg.k = k;
    let mut t = T::new(cfg, Arm::only("C12"), Renew::None, ctx.seed ^ case);
    let down = Id::new(7, 0);
    t.exec(
        Op::Apply(
            vec![
                Member::new(M, 0, State::Alive),
                Member::new(X, 0, State::Alive),
                Member::new(H, 0, State::Alive),
                Member::new(Id::new(4, 0), 0, State::Alive),
                Member::new(down, 0, State::Down),
            ],
            true,
        ),
        acc,
    )?;
    // one round: find the Ping
    let Some(pt) = t.probe.take() else {
        acc.inconclusive += 1;
        return Ok(());
    };
    let rec = t.exec(Op::Timer(pt), acc)?;
    let Some((target, nr)) = rec.sends().find_map(|(to, d)| match wire::decode_header(CodecKind::Hand, d) {
        Ok((h, _)) => match h.message {
            Message::Ping(n) => Some((*to, n)),
            _ => None,
        },
        _ => None,
    }) else {
        acc.inconclusive += 1;
        return Ok(());
    };
    let use_nr = (nr as i16 + nr_delta) as u8;
    let mut asked: Vec<Id> = vec![];
    let deliver = |t: &mut T, asked: &Vec<Id>, acc: &mut Acc| -> Result<(), V> {
        let others: Vec<Id> = t.node.last.active.iter().copied().filter(|x| *x != target).collect();
        let src = match sender_kind {
            0 => target,
            1 => asked.first().copied().unwrap_or(others.first().copied().unwrap_or(X)),
            2 => others.iter().copied().find(|x| !asked.contains(x)).unwrap_or(X),
            3 => Id::new(8, 0),
            _ => down,
        };
        let msg = if fwd { Message::ForwardedAck { origin: target, probe_number: use_nr } } else { Message::Ack(use_nr) };
        t.data(src, 0, msg, &[], acc)?;
        Ok(())
    };
    if arrival == 0 {
        deliver(&mut t, &asked, acc)?;
    }
    match change {
        1 => {
            t.exec(Op::Apply(vec![Member::new(target, 0, State::Down)], true), acc)?;
        }
        2 => {
            t.exec(Op::Apply(vec![Member::new(target, 1, State::Alive)], true), acc)?;
        }
        3 => {
            t.exec(Op::Apply(vec![Member::new(Id::new(target.addr, target.gen + 1), 0, State::Alive)], true), acc)?;
        }
        _ => {}
    }
    if let Some(it) = t.indirect.take() {
        let rec = t.exec(Op::Timer(it), acc)?;
        for (to, d) in rec.sends() {
            if let Ok((h, _)) = wire::decode_header(CodecKind::Hand, d) {
                if matches!(h.message, Message::PingReq { .. }) {
                    asked.push(*to);
                }
            }
        }
    }
    if arrival == 1 {
        deliver(&mut t, &asked, acc)?;
    }
    if let Some(pt) = t.probe.take() {
        t.exec(Op::Timer(pt), acc)?;
    }
    if arrival == 2 {
        deliver(&mut t, &asked, acc)?;
        // and one more round so that the late evidence is judged against the new round
        if let Some(it) = t.indirect.take() {
            t.exec(Op::Timer(it), acc)?;
        }
        if let Some(pt) = t.probe.take() {
            t.exec(Op::Timer(pt), acc)?;
        }
    }
    acc.tally("c12_table_cells", 1);
    acc.nontrivial(fp(&(sender_kind, nr_delta, fwd, arrival, k, change)));
    acc.exhaustive_parts.insert("C12 table: sender {target, asked helper, un-asked member, unknown, Down member} x probe number {prev,cur,next} x {Ack, ForwardedAck} x arrival {before indirect stage, between, after next round} x fan-out 1..=3 x membership change {none, target Down, target higher incarnation, target renewed}".into());
    acc.sample(|| json!({"workload": "c12_table", "sender_kind": sender_kind, "nr_delta": nr_delta, "forwarded": fwd, "arrival": arrival, "k": k, "change": change}));
    Ok(())
}

pub const C12_TABLE_CELLS: u64 = 5 * 3 * 2 * 3 * 3 * 4;
