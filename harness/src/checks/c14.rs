//! C14 — round-robin probing: every active member is probed within 2n-1 rounds.
use crate::bcast::HdlCfg;
use crate::codecs::CodecKind;
use crate::ensure;
use crate::gen;
use crate::ids::Id;
use crate::node::{Cfg, Node, Op, Res};
use crate::run::{Acc, Check, Ctx, Flav, Tier, Verdict, Workload, V};
use crate::util::{fp, Rng64};
use crate::wire;
use foca::{Header, Member, Message, State, Timer};
use serde_json::json;
use std::collections::BTreeSet;

const ME: Id = Id::new(0, 0);

struct Rr {
    node: Node,
    probe_timer: Option<Timer<Id>>,
    indirect_timer: Option<Timer<Id>>,
    /// outstanding periodic-task timers (announce, announce-to-down, gossip)
    periodic: Vec<Timer<Id>>,
    /// the previous round was left unfinished (no Ack, indirect-probe timer never delivered): a lagging runtime
    unfinished: bool,
}

impl Rr {
    fn absorb(&mut self, rec: &crate::node::CallRec) {
        for (t, _) in rec.scheds() {
            match t {
                Timer::ProbeRandomMember(_) => self.probe_timer = Some(t.clone()),
                Timer::SendIndirectProbe { .. } => self.indirect_timer = Some(t.clone()),
                Timer::PeriodicAnnounce(_) | Timer::PeriodicAnnounceDown(_) | Timer::PeriodicGossip(_) => self.periodic.push(t.clone()),
                _ => {}
            }
        }
    }
    fn apply(&mut self, us: Vec<Member<Id>>) -> Verdict {
        let rec = self.node.call(Op::Apply(us, true));
        ensure!(rec.res.is_ok(), "C14/harness", "apply_many failed: {:?}", rec.res);
        self.absorb(&rec);
        Ok(())
    }
    /// The periodic tasks run between probe rounds (they re-arm themselves; what they send is not this check's
    /// business, but they must leave the probing order alone).
    fn periodic_tasks(&mut self, r: &mut Rng64) -> Verdict {
        for _ in 0..r.below(3) {
            if self.periodic.is_empty() {
                break;
            }
            let t = self.periodic.swap_remove(r.usize(self.periodic.len()));
            let rec = self.node.call(Op::Timer(t));
            ensure!(rec.res == Res::Ok, "C14/harness", "periodic timer returned {:?}", rec.res);
            ensure!(rec.pre.sorted_state() == rec.post.sorted_state(), "C14/harness", "periodic task changed the membership");
            self.absorb(&rec);
        }
        Ok(())
    }

    /// One full probe round; returns the Ping destination (None when no member).
    /// `leave_unfinished`: no Ack is delivered and the indirect-probe timer is lost (a lagging runtime): the next
    /// probe timer then reports IncompleteProbeCycle - and must still move on to the next member.
    fn round_with(&mut self, leave_unfinished: bool) -> Result<Option<Id>, V> {
        let Some(t) = self.probe_timer.take() else {
            return Err(V::new("C14/harness", "no probe timer outstanding"));
        };
        let rec = self.node.call(Op::Timer(t));
        if self.unfinished {
            ensure!(
                rec.res == Res::Err(crate::node::EK::IncompleteProbeCycle) || rec.res == Res::Ok,
                "C14/probe-error",
                "probe timer after an unfinished round returned {:?}",
                rec.res
            );
            ensure!(rec.pre.sorted_state() == rec.post.sorted_state(), "C14/membership-changed", "an unfinished probe round changed the membership: {:?} -> {:?}", rec.pre.state, rec.post.state);
            self.unfinished = false;
        } else {
            ensure!(rec.res == Res::Ok, "C14/probe-error", "probe timer returned {:?}", rec.res);
        }
        self.absorb(&rec);
        let mut pings = vec![];
        for (to, data) in rec.sends() {
            let (h, _) = wire::decode_header(self.node.codec, data).map_err(|e| V::new("C14/harness", e))?;
            match h.message {
                Message::Ping(n) => pings.push((*to, n)),
                other => return Err(V::new("C14/unexpected-datagram", format!("probe round sent {other:?}"))),
            }
        }
        let n_active = rec.pre.num_members;
        if n_active == 0 {
            ensure!(pings.is_empty(), "C14/ping-without-members", "Ping sent with no active member");
            return Ok(None);
        }
        ensure!(pings.len() == 1, "C14/not-exactly-one-ping", "{} Pings in one probe round (active {:?})", pings.len(), rec.pre.active);
        let (dst, nr) = pings[0];
        ensure!(dst.addr != ME.addr, "C14/pinged-self", "Ping sent to own address {dst:?}");
        let recd = rec.pre.state.iter().find(|m| *m.id() == dst);
        ensure!(
            recd.is_some_and(|m| m.state() != State::Down),
            "C14/pinged-non-active",
            "Ping sent to {dst:?}, record {recd:?}, active members {:?}",
            rec.pre.active
        );
        if leave_unfinished {
            self.indirect_timer = None;
            self.unfinished = true;
            return Ok(Some(dst));
        }
        // answer with an Ack from the target at its known incarnation: no state change
        let inc = recd.unwrap().incarnation();
        let h = Header { src: dst, src_incarnation: inc, dst: ME, message: Message::Ack(nr) };
        let ack = wire::build(self.node.codec, &h, Some(&[]), &[]);
        let rec2 = self.node.call(Op::Data(ack));
        ensure!(rec2.res == Res::Ok, "C14/harness", "Ack rejected: {:?}", rec2.res);
        ensure!(rec2.pre.sorted_state() == rec2.post.sorted_state(), "C14/harness", "Ack changed the membership");
        self.absorb(&rec2);
        if let Some(t) = self.indirect_timer.take() {
            let rec3 = self.node.call(Op::Timer(t));
            ensure!(rec3.res == Res::Ok, "C14/harness", "indirect-probe timer: {:?}", rec3.res);
            ensure!(rec3.evs.is_empty(), "C14/indirect-after-ack", "indirect probe started although the Ack arrived: {:?}", rec3.evs);
        }
        Ok(Some(dst))
    }

    fn round(&mut self) -> Result<Option<Id>, V> {
        self.round_with(false)
    }
}

fn rr_case(ctx: &Ctx, case: u64, acc: &mut Acc) -> Verdict {
    let mut r = Rng64::derive(ctx.seed, 0xC14, case);
    let nmax = if ctx.tier == Tier::Quick { 12 } else { 40 };
    // small (n, d) pairs are enumerated systematically, the rest sampled
    let (n, d) = if case % 3 == 0 {
        let k = (case / 3) % 21; // pairs with n+d <= 6, n>=1
        let mut pairs = vec![];
        for n in 1..=6usize {
            for d in 0..=(6 - n) {
                pairs.push((n, d));
            }
        }
        pairs[k as usize % pairs.len()]
    } else {
        let n = r.range(1, nmax) as usize;
        (n, r.below(2 * n as u64 + 1) as usize)
    };
    let mut cfg = Cfg::simple();
    cfg.mps = 1400;
    cfg.rda = 1_000_000;
    // the periodic tasks of the stock configurations, in half of the cases; a lagging runtime in a quarter
    let with_periodic = case % 2 == 1;
    if with_periodic {
        cfg.pa = Some((cfg.p * 2, r.range(1, 3) as usize));
        cfg.pad = Some((cfg.p * 3, r.range(1, 3) as usize));
        cfg.pg = Some((cfg.p / 5, r.range(1, 3) as usize));
    }
    let laggy = case % 4 >= 2;
    let node = Node::new(ME, cfg, CodecKind::Hand, HdlCfg::disabled(), r.next());
    let mut rr = Rr { node, probe_timer: None, indirect_timer: None, periodic: vec![], unfinished: false };

    // build phase: n + extra actives and d + extra downs in random order, with
    // probe rounds in between (arbitrary cursor), then remove the extras again
    let extra_a = r.below(3) as usize;
    let extra_d = r.below(3) as usize;
    let mut ids: Vec<(Id, State)> = vec![];
    for a in 0..(n + extra_a) {
        ids.push((Id::new(100 + a as u16, r.below(3) as u8), if r.chance(1, 4) { State::Suspect } else { State::Alive }));
    }
    for x in 0..(d + extra_d) {
        ids.push((Id::new(1000 + x as u16, r.below(3) as u8), State::Down));
    }
    // echoes of the instance's own address under other generations (older ones cannot exist for generation 0; newer
    // ones win the conflict): whatever is said about them they may be recorded, but never probed
    let own_echoes = r.below(3) as usize;
    for x in 0..own_echoes {
        ids.push((Id::new(ME.addr, 1 + x as u8), *r.pick(&[State::Alive, State::Alive, State::Suspect, State::Down])));
    }
    r.shuffle(&mut ids);
    let mut i = 0;
    while i < ids.len() {
        let j = (i + 1 + r.usize(4)).min(ids.len());
        let us = ids[i..j].iter().map(|(id, st)| Member::new(*id, gen::small_inc(&mut r), *st)).collect();
        rr.apply(us)?;
        i = j;
        if rr.probe_timer.is_some() && r.chance(1, 2) {
            for _ in 0..r.range(1, 4) {
                rr.round()?;
            }
        }
    }
    // take the extras out: extra actives are declared Down; extra downs are forgotten
    let act: Vec<Id> = ids.iter().filter(|(id, s)| *s != State::Down && id.addr != ME.addr).map(|(i, _)| *i).collect();
    for id in act.iter().take(extra_a) {
        rr.apply(vec![Member::new(*id, 0, State::Down)])?;
    }
    let downs: Vec<Id> = ids.iter().filter(|(id, s)| *s == State::Down && id.addr != ME.addr).map(|(i, _)| *i).collect();
    for id in downs.iter().take(extra_d) {
        let rec = rr.node.call(Op::Timer(Timer::RemoveDown(*id)));
        ensure!(rec.res == Res::Ok, "C14/harness", "RemoveDown failed");
    }
    // forgetting some of the freshly declared-down extras too (changes positions via swap_remove)
    for id in act.iter().take(extra_a) {
        if r.chance(1, 2) {
            let _ = rr.node.call(Op::Timer(Timer::RemoveDown(*id)));
        }
    }
    let members: BTreeSet<Id> = rr.node.last.active.iter().copied().collect();
    let n_now = rr.node.last.num_members;
    if members.iter().any(|m| m.addr == ME.addr) {
        // an identity bearing the own address is listed as active (C09's business): here, what matters is
        // whether a probe round ever picks it
        for _ in 0..(4 * n_now + 4) {
            rr.round()?;
        }
    }
    ensure!(n_now == n && members.len() == n, "C14/harness", "built {n_now} active members, wanted {n}");
    let layout = fp(&(format!("{:?}", rr.node.last.snap.members_order), rr.node.last.snap.members_cursor));

    // stable phase
    let rounds = 8 * n + 8;
    let mut dsts: Vec<Id> = Vec::with_capacity(rounds);
    let mut unfinished_rounds = 0u64;
    for _ in 0..rounds {
        if with_periodic {
            rr.periodic_tasks(&mut r)?;
        }
        let lag = laggy && n >= 2 && r.chance(1, 4);
        unfinished_rounds += u64::from(lag);
        match rr.round_with(lag)? {
            Some(d) => dsts.push(d),
            None => return Err(V::new("C14/no-ping", "probe round without a Ping although members are active")),
        }
    }
    acc.tally("rounds_left_unfinished_by_a_lagging_runtime", unfinished_rounds);
    if with_periodic {
        acc.tally("cases_with_periodic_tasks_between_rounds", 1);
    }
    let w = 2 * n - 1;
    let mut maxgap = 0usize;
    for m in &members {
        // positions where m was probed; gaps include the distance from the start
        let mut last: isize = -1;
        for (i, d) in dsts.iter().enumerate() {
            if d == m {
                maxgap = maxgap.max((i as isize - last) as usize);
                last = i as isize;
            }
        }
        maxgap = maxgap.max((dsts.len() as isize - last) as usize - 0);
    }
    for s in 0..=(dsts.len() - w) {
        let win: BTreeSet<Id> = dsts[s..s + w].iter().copied().collect();
        ensure!(
            win.len() == n,
            "C14/window-misses-member",
            "n={n} d={d}: rounds {s}..{} ({w} rounds) probed only {} of {n} members; missing {:?}; sequence {:?}",
            s + w,
            win.len(),
            members.difference(&win).collect::<Vec<_>>(),
            &dsts[s..s + w]
        );
    }
    // maximal distance between two probes of the same member (first probe counted from the start)
    let mut worst = 0usize;
    for m in &members {
        let mut last: isize = -1;
        for (i, x) in dsts.iter().enumerate() {
            if x == m {
                worst = worst.max((i as isize - last) as usize);
                last = i as isize;
            }
        }
    }
    let _ = maxgap;
    acc.max(&format!("max_probe_distance_n{n:02}"), worst as u64);
    acc.tally("probe_rounds_checked", rounds as u64);
    acc.tally("windows_checked", (dsts.len() - w + 1) as u64);
    if n >= 2 {
        acc.nontrivial(layout);
    }
    acc.sample(|| json!({"workload": "rr", "n": n, "down_records": d, "first_rounds": format!("{:?}", &dsts[..dsts.len().min(12)]), "max_distance": worst}));
    Ok(())
}

pub fn check() -> Check {
    Check {
        id: "C14",
        level: "exploration",
        rule: "membership built through apply_many/RemoveDown only (n active incl. Suspect, d Down records, 0..2 echoes of the own address under newer generations in any state, extras added and removed, probe rounds interleaved so the cursor is arbitrary), then 8n+8 probe rounds with every Ping acknowledged (in a quarter of the cases a lagging runtime leaves a quarter of the rounds unfinished: no Ack, indirect-probe timer lost, the next probe timer reports IncompleteProbeCycle and must still move on; in half of the cases the periodic announce / announce-to-down / gossip timers fire between rounds); every window of 2n-1 consecutive rounds must contain every active member; all (n,d) with n+d<=6 systematically, n up to 12 (quick) / 40 (thorough) sampled, fresh RNG seed per case. Non-trivial: n>=2; distinct by (member order, cursor) layout at the start of the stable phase (from the hook snapshot).",
        assumptions: &["the Ack sent by the harness carries the target's recorded incarnation, so no update is applied during the stable phase (asserted)"],
        required: &["probe_rounds_checked", "windows_checked"],
        workloads: vec![Workload { name: "rr", f: rr_case, quick: 48_000, thorough: 400_000, flav: Flav::Checked }],
        exhaustive: false,
        aggregate: None,
    }
}
