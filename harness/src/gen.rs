//! Seeded generators shared by the workloads.
use crate::bcast::HdlCfg;
use crate::codecs::{CodecKind, ALL_CODECS};
use crate::ids::{Id, Renew};
use crate::node::Cfg;
use crate::util::Rng64;
use foca::{Member, State};

pub const STATES: [State; 3] = [State::Alive, State::Suspect, State::Down];
pub const INC_BOUNDARY: [u16; 7] = [0, 1, 2, 3, u16::MAX - 2, u16::MAX - 1, u16::MAX];

pub fn inc(r: &mut Rng64) -> u16 {
    if r.chance(4, 5) {
        *r.pick(&INC_BOUNDARY)
    } else {
        r.next() as u16
    }
}

pub fn small_inc(r: &mut Rng64) -> u16 {
    if r.chance(9, 10) {
        r.below(4) as u16
    } else {
        *r.pick(&INC_BOUNDARY)
    }
}

pub fn state(r: &mut Rng64) -> State {
    *r.pick(&STATES)
}

/// update over addresses lo..=hi and generations 0..=gmax
pub fn update(r: &mut Rng64, lo: u16, hi: u16, gmax: u8) -> Member<Id> {
    let id = Id::new(r.range(lo as u64, hi as u64) as u16, r.below(gmax as u64 + 1) as u8);
    Member::new(id, inc(r), state(r))
}

pub fn codec(r: &mut Rng64) -> CodecKind {
    *r.pick(&ALL_CODECS)
}

pub fn renew_policy(r: &mut Rng64) -> Renew {
    *r.pick(&[Renew::None, Renew::Bump, Renew::Bump, Renew::Same, Renew::Losing])
}

pub fn periodic(r: &mut Rng64, p: u64) -> Option<(u64, usize)> {
    if r.chance(1, 2) {
        Some((r.range(p / 3, p * 4), r.range(1, 4) as usize))
    } else {
        None
    }
}

/// A random but legal configuration for single-instance histories
pub fn cfg_small(r: &mut Rng64) -> Cfg {
    let mut c = Cfg::simple();
    c.k = r.range(1, 4) as usize;
    c.tx = *r.pick(&[1u8, 2, 3, 5, 10, 255]);
    c.notify_down = r.chance(1, 2);
    c.mps = *r.pick(&[40usize, 60, 90, 150, 400, 1400]);
    c.pa = periodic(r, c.p);
    c.pad = periodic(r, c.p);
    c.pg = periodic(r, c.p);
    c
}

pub fn hdl(r: &mut Rng64) -> HdlCfg {
    if r.chance(1, 3) {
        return HdlCfg::disabled();
    }
    let mut table = [[false; 4]; 4];
    for row in table.iter_mut() {
        for c in row.iter_mut() {
            *c = r.chance(1, 3);
        }
    }
    HdlCfg {
        enabled: true,
        mode: r.below(3) as u8,
        table,
        allow_mask: if r.chance(1, 2) { u32::MAX } else { r.next() as u32 | 1 },
        accept_empty: r.chance(1, 2),
    }
}
