//! The instrumented instance: a real Foca behind a recording Runtime. All
//! history is recorded at the public boundary.
use crate::bcast::{HLog, HLogEntry, Hdl, HdlCfg};
use crate::codecs::{AnyCodec, CodecKind};
use crate::ids::Id;
use foca::{
    Config, Error, Foca, Member, Notification, OwnedNotification, PeriodicParams, Runtime, Timer, VerifSnapshot,
};
use rand::{rngs::SmallRng, SeedableRng};
use serde::{Deserialize, Serialize};
use std::cell::RefCell;
use std::num::{NonZeroU8, NonZeroUsize};
use std::panic::{catch_unwind, AssertUnwindSafe};
use std::time::Duration;

pub type F = Foca<Id, AnyCodec, SmallRng, Hdl>;
pub type Note = OwnedNotification<Id>;

/// Plain-data configuration (all durations in µs)
#[derive(Clone, Debug, PartialEq, Eq, Hash, Serialize, Deserialize)]
pub struct Cfg {
    pub p: u64,
    pub r: u64,
    pub k: usize,
    pub tx: u8,
    pub s2d: u64,
    pub rda: u64,
    pub mps: usize,
    pub notify_down: bool,
    /// (frequency µs, num_members)
    pub pa: Option<(u64, usize)>,
    pub pad: Option<(u64, usize)>,
    pub pg: Option<(u64, usize)>,
}

pub const P: u64 = 1_500_000;
pub const R: u64 = 500_000;

impl Cfg {
    pub fn simple() -> Self {
        Cfg {
            p: P,
            r: R,
            k: 3,
            tx: 10,
            s2d: 3_000_000,
            rda: 86_400_000_000,
            mps: 1400,
            notify_down: false,
            pa: None,
            pad: None,
            pg: None,
        }
    }
    pub fn to_config(&self) -> Config {
        let per = |x: &Option<(u64, usize)>| {
            x.map(|(f, n)| PeriodicParams {
                frequency: Duration::from_micros(f),
                num_members: NonZeroUsize::new(n).expect("nonzero"),
            })
        };
        let mut c = Config::simple();
        c.probe_period = Duration::from_micros(self.p);
        c.probe_rtt = Duration::from_micros(self.r);
        c.num_indirect_probes = NonZeroUsize::new(self.k).expect("k");
        c.max_transmissions = NonZeroU8::new(self.tx).expect("tx");
        c.suspect_to_down_after = Duration::from_micros(self.s2d);
        c.remove_down_after = Duration::from_micros(self.rda);
        c.max_packet_size = NonZeroUsize::new(self.mps).expect("mps");
        c.notify_down_members = self.notify_down;
        c.periodic_announce = per(&self.pa);
        c.periodic_announce_to_down_members = per(&self.pad);
        c.periodic_gossip = per(&self.pg);
        c
    }
}

#[derive(Clone, Debug, PartialEq)]
pub enum Ev {
    Send { to: Id, data: Vec<u8> },
    Sched { timer: Timer<Id>, after: Duration },
    Notify(Note),
}

#[derive(Default)]
pub struct Rec(pub Vec<Ev>);
impl Runtime<Id> for Rec {
    fn notify(&mut self, n: Notification<'_, Id>) {
        self.0.push(Ev::Notify(n.to_owned()))
    }
    fn send_to(&mut self, to: Id, d: &[u8]) {
        self.0.push(Ev::Send { to, data: d.to_vec() })
    }
    fn submit_after(&mut self, t: Timer<Id>, a: Duration) {
        self.0.push(Ev::Sched { timer: t, after: a })
    }
}

#[derive(Clone, Debug)]
pub enum Op {
    Data(Vec<u8>),
    Timer(Timer<Id>),
    Announce(Id),
    Gossip,
    Broadcast,
    Leave,
    AddBroadcast(Vec<u8>),
    Apply(Vec<Member<Id>>, bool),
    ChangeId(Id),
    Reuse,
    SetConfig(Cfg),
}

impl Op {
    pub fn name(&self) -> &'static str {
        match self {
            Op::Data(_) => "handle_data",
            Op::Timer(_) => "handle_timer",
            Op::Announce(_) => "announce",
            Op::Gossip => "gossip",
            Op::Broadcast => "broadcast",
            Op::Leave => "leave_cluster",
            Op::AddBroadcast(_) => "add_broadcast",
            Op::Apply(..) => "apply_many",
            Op::ChangeId(_) => "change_identity",
            Op::Reuse => "reuse_down_identity",
            Op::SetConfig(_) => "set_config",
        }
    }
}

#[derive(Clone, Copy, Debug, PartialEq, Eq, Hash)]
pub enum EK {
    DataTooBig,
    NotUndead,
    SameIdentity,
    NotConnected,
    IncompleteProbeCycle,
    DataFromOurselves,
    IndirectForOurselves,
    MalformedPacket,
    Encode,
    Decode,
    CustomBroadcast,
    InvalidConfig,
}

pub fn ek(e: &Error) -> EK {
    match e {
        Error::DataTooBig => EK::DataTooBig,
        Error::NotUndead => EK::NotUndead,
        Error::SameIdentity => EK::SameIdentity,
        Error::NotConnected => EK::NotConnected,
        Error::IncompleteProbeCycle => EK::IncompleteProbeCycle,
        Error::DataFromOurselves => EK::DataFromOurselves,
        Error::IndirectForOurselves => EK::IndirectForOurselves,
        Error::MalformedPacket => EK::MalformedPacket,
        Error::Encode(_) => EK::Encode,
        Error::Decode(_) => EK::Decode,
        Error::CustomBroadcast(_) => EK::CustomBroadcast,
        Error::InvalidConfig => EK::InvalidConfig,
    }
}

#[derive(Clone, Debug, PartialEq, Eq)]
pub enum Res {
    Ok,
    Bool(bool),
    Err(EK),
    /// (location, first line of message)
    Panic(String, String),
}
impl Res {
    pub fn is_ok(&self) -> bool {
        matches!(self, Res::Ok | Res::Bool(_))
    }
    pub fn is_panic(&self) -> bool {
        matches!(self, Res::Panic(..))
    }
}

/// What the public getters (plus the hook snapshot) show at a quiescent point
#[derive(Clone, Debug, PartialEq, Eq)]
pub struct Obs {
    pub id: Id,
    /// iter_membership_state(), in its order
    pub state: Vec<Member<Id>>,
    /// ids yielded by iter_members(), in its order
    pub active: Vec<Id>,
    pub num_members: usize,
    pub ub: usize,
    pub cb: usize,
    pub snap: VerifSnapshot<Id>,
}

impl Obs {
    pub fn of(f: &F) -> Self {
        Obs {
            id: *f.identity(),
            state: f.iter_membership_state().cloned().collect(),
            active: f.iter_members().map(|m| *m.id()).collect(),
            num_members: f.num_members(),
            ub: f.updates_backlog(),
            cb: f.custom_broadcast_backlog(),
            snap: f.verif_snapshot(),
        }
    }
    pub fn rec_for_addr(&self, addr: u16) -> Option<&Member<Id>> {
        self.state.iter().find(|m| m.id().addr == addr)
    }
    pub fn is_active(&self, id: &Id) -> bool {
        self.active.contains(id)
    }
    /// state ignoring order
    pub fn sorted_state(&self) -> Vec<(Id, u16, u8)> {
        let mut v: Vec<_> = self.state.iter().map(|m| (*m.id(), m.incarnation(), st_code(m.state()))).collect();
        v.sort();
        v
    }
}

pub fn st_code(s: foca::State) -> u8 {
    match s {
        foca::State::Alive => 0,
        foca::State::Suspect => 1,
        foca::State::Down => 2,
    }
}

#[derive(Clone, Debug)]
pub struct CallRec {
    pub seq: u64,
    pub op: Op,
    pub pre: Obs,
    pub evs: Vec<Ev>,
    pub res: Res,
    pub post: Obs,
    /// receive_item calls made during this call
    pub hlog: Vec<HLogEntry>,
    /// configuration in force when the call started / ended
    pub cfg_pre: Cfg,
    pub cfg_post: Cfg,
}

impl CallRec {
    pub fn sends(&self) -> impl Iterator<Item = (&Id, &Vec<u8>)> {
        self.evs.iter().filter_map(|e| match e {
            Ev::Send { to, data } => Some((to, data)),
            _ => None,
        })
    }
    pub fn scheds(&self) -> impl Iterator<Item = (&Timer<Id>, &Duration)> {
        self.evs.iter().filter_map(|e| match e {
            Ev::Sched { timer, after } => Some((timer, after)),
            _ => None,
        })
    }
    pub fn notes(&self) -> impl Iterator<Item = &Note> {
        self.evs.iter().filter_map(|e| match e {
            Ev::Notify(n) => Some(n),
            _ => None,
        })
    }
    pub fn has_note(&self, n: &Note) -> bool {
        self.notes().any(|x| x == n)
    }
    pub fn short(&self) -> String {
        let mut s = format!("#{} {}(", self.seq, self.op.name());
        match &self.op {
            Op::Data(d) => s.push_str(&format!("{} bytes {}", d.len(), crate::util::hex(&d[..d.len().min(48)]))),
            Op::Timer(t) => s.push_str(&format!("{t:?}")),
            Op::Announce(i) | Op::ChangeId(i) => s.push_str(&format!("{i:?}")),
            Op::AddBroadcast(d) => s.push_str(&format!("{} bytes", d.len())),
            Op::Apply(u, b) => s.push_str(&format!("{u:?}, {b}")),
            Op::SetConfig(c) => s.push_str(&format!("{c:?}")),
            _ => {}
        }
        s.push_str(&format!(") -> {:?}", self.res));
        for e in &self.evs {
            match e {
                Ev::Send { to, data } => s.push_str(&format!(
                    "\n      send to {to:?} {} bytes {}",
                    data.len(),
                    crate::util::hex(&data[..data.len().min(64)])
                )),
                Ev::Sched { timer, after } => s.push_str(&format!("\n      timer {timer:?} after {after:?}")),
                Ev::Notify(n) => s.push_str(&format!("\n      notify {n:?}")),
            }
        }
        s
    }
}

/// Run `op` on `f` with any Runtime implementation.
pub fn dispatch<RT: Runtime<Id>>(f: &mut F, op: &Op, mut rec: RT, new_cfg: &mut Option<Cfg>) -> Result<Option<bool>, Error> {
    match op {
        Op::Data(d) => f.handle_data(d, &mut rec).map(|_| None),
        Op::Timer(t) => f.handle_timer(t.clone(), &mut rec).map(|_| None),
        Op::Announce(dst) => f.announce(*dst, &mut rec).map(|_| None),
        Op::Gossip => f.gossip(&mut rec).map(|_| None),
        Op::Broadcast => f.broadcast(&mut rec).map(|_| None),
        Op::Leave => f.leave_cluster(&mut rec).map(|_| None),
        Op::AddBroadcast(d) => f.add_broadcast(d).map(Some),
        Op::Apply(us, b) => f.apply_many(us.iter().cloned(), *b, &mut rec).map(|_| None),
        Op::ChangeId(id) => f.change_identity(*id, &mut rec).map(|_| None),
        Op::Reuse => f.reuse_down_identity().map(|_| None),
        Op::SetConfig(c) => {
            let r = f.set_config(c.to_config()).map(|_| None);
            if r.is_ok() {
                *new_cfg = Some(c.clone());
            }
            r
        }
    }
}

thread_local! {
    static LAST_PANIC: RefCell<Option<(String, String)>> = const { RefCell::new(None) };
}

/// Install a panic hook that records (location, message) instead of printing.
pub fn install_panic_hook() {
    std::panic::set_hook(Box::new(|info| {
        let loc = info.location().map(|l| format!("{}:{}", l.file(), l.line())).unwrap_or_default();
        let msg = if let Some(s) = info.payload().downcast_ref::<&str>() {
            s.to_string()
        } else if let Some(s) = info.payload().downcast_ref::<String>() {
            s.clone()
        } else {
            "<non-string panic>".to_string()
        };
        let first = msg.lines().next().unwrap_or("").to_string();
        LAST_PANIC.with(|p| *p.borrow_mut() = Some((loc, first)));
    }));
}

pub fn take_last_panic() -> Option<(String, String)> {
    LAST_PANIC.with(|p| p.borrow_mut().take())
}

pub struct Node {
    pub f: F,
    pub codec: CodecKind,
    pub cfg: Cfg,
    pub hcfg: HdlCfg,
    pub hlog: HLog,
    pub seq: u64,
    pub last: Obs,
    /// set after a caught panic: the instance must not be used any more
    pub poisoned: bool,
    pub name: String,
}

impl Node {
    pub fn new(id: Id, cfg: Cfg, codec: CodecKind, hcfg: HdlCfg, rng_seed: u64) -> Self {
        let (h, hlog) = Hdl::new(hcfg);
        let f = Foca::with_custom_broadcast(
            id,
            cfg.to_config(),
            SmallRng::seed_from_u64(rng_seed),
            AnyCodec(codec),
            h,
        );
        let last = Obs::of(&f);
        Node {
            f,
            codec,
            cfg,
            hcfg,
            hlog,
            seq: 0,
            last,
            poisoned: false,
            name: format!("{id:?}"),
        }
    }

    pub fn id(&self) -> Id {
        *self.f.identity()
    }

    /// Run one public operation, recording everything observable.
    pub fn call(&mut self, op: Op) -> CallRec {
        if self.poisoned {
            // the instance panicked earlier and must not be used any more: workloads stop at the first
            // panic, this is the safety net for those that call once more
            let o = self.last.clone();
            return CallRec {
                seq: self.seq,
                op,
                pre: o.clone(),
                evs: vec![],
                res: Res::Panic("(harness)".into(), "instance poisoned by an earlier panic".into()),
                post: o,
                hlog: vec![],
                cfg_pre: self.cfg.clone(),
                cfg_post: self.cfg.clone(),
            };
        }
        let pre = self.last.clone();
        let cfg_pre = self.cfg.clone();
        self.hlog.borrow_mut().clear();
        let mut rec = Rec::default();
        let f = &mut self.f;
        let mut new_cfg = None;
        let out = catch_unwind(AssertUnwindSafe(|| dispatch(f, &op, &mut rec, &mut new_cfg)));
        let res = match out {
            Ok(Ok(None)) => Res::Ok,
            Ok(Ok(Some(b))) => Res::Bool(b),
            Ok(Err(e)) => Res::Err(ek(&e)),
            Err(_) => {
                self.poisoned = true;
                let (loc, msg) = take_last_panic().unwrap_or_default();
                Res::Panic(loc, msg)
            }
        };
        if let Some(c) = new_cfg {
            self.cfg = c;
        }
        let post = if self.poisoned { pre.clone() } else { Obs::of(&self.f) };
        self.last = post.clone();
        self.seq += 1;
        let hlog = std::mem::take(&mut *self.hlog.borrow_mut());
        let cr = CallRec {
            seq: self.seq,
            op,
            pre,
            evs: rec.0,
            res,
            post,
            hlog,
            cfg_pre,
            cfg_post: self.cfg.clone(),
        };
        if crate::run::tracing() {
            let name = &self.name;
            crate::run::trace(|| format!("[{}] {}", name, cr.short()));
        }
        cr
    }
}
