//! The identity type used by every workload: small address domain, several
//! generations per address, total conflict order, selectable renew policy.
use foca::Identity;
use serde::{Deserialize, Deserializer, Serialize, Serializer};
use std::hash::{Hash, Hasher};

#[derive(Clone, Copy, Debug, PartialEq, Eq, Hash, Serialize, Deserialize)]
pub enum Renew {
    /// not renewable
    None,
    /// next generation: wins against the previous one
    Bump,
    /// renew() yields an identical identity (must be treated as failure)
    Same,
    /// renew() yields an identity that loses the conflict
    Losing,
}

/// `addr` is the network address; `gen` orders identities sharing an address
/// (higher wins: a total order, as the Identity contract requires).
/// `policy` only affects `renew()` and is not part of equality nor of the wire
/// format.
#[derive(Clone, Copy)]
pub struct Id {
    pub addr: u16,
    pub gen: u8,
    pub policy: Renew,
}

impl Id {
    pub const fn new(addr: u16, gen: u8) -> Self {
        Id { addr, gen, policy: Renew::None }
    }
    pub const fn with(addr: u16, gen: u8, policy: Renew) -> Self {
        Id { addr, gen, policy }
    }
    /// Number of padding bytes in the encodings (variable-length identities)
    pub fn pad_len(&self) -> usize {
        (self.addr % 3) as usize
    }
    pub fn key(&self) -> (u16, u8) {
        (self.addr, self.gen)
    }
}

impl std::fmt::Debug for Id {
    fn fmt(&self, f: &mut std::fmt::Formatter<'_>) -> std::fmt::Result {
        write!(f, "{}@{}", self.addr, self.gen)
    }
}

impl PartialEq for Id {
    fn eq(&self, o: &Self) -> bool {
        self.addr == o.addr && self.gen == o.gen
    }
}
impl Eq for Id {}
impl Hash for Id {
    fn hash<H: Hasher>(&self, h: &mut H) {
        self.addr.hash(h);
        self.gen.hash(h);
    }
}
impl PartialOrd for Id {
    fn partial_cmp(&self, o: &Self) -> Option<std::cmp::Ordering> {
        Some(self.cmp(o))
    }
}
impl Ord for Id {
    fn cmp(&self, o: &Self) -> std::cmp::Ordering {
        self.key().cmp(&o.key())
    }
}

impl Identity for Id {
    type Addr = u16;

    fn renew(&self) -> Option<Self> {
        match self.policy {
            Renew::None => None,
            // at generation 255 the wrapped generation loses: a failed renewal
            Renew::Bump => Some(Id { gen: self.gen.wrapping_add(1), ..*self }),
            Renew::Same => Some(*self),
            Renew::Losing => Some(Id { gen: self.gen.saturating_sub(1), ..*self }),
        }
    }

    fn addr(&self) -> u16 {
        self.addr
    }

    fn win_addr_conflict(&self, adversary: &Self) -> bool {
        self.gen > adversary.gen
    }
}

/// What `renew()` should give for a successful auto-rejoin
pub fn renewed_ok(old: &Id) -> Option<Id> {
    match old.renew() {
        Some(n) if n != *old && n.win_addr_conflict(old) => Some(n),
        _ => None,
    }
}

// serde form: (addr, gen, pad) where pad has addr % 3 bytes of 0xEE. Decoding
// checks the padding so that corrupted identities are rejected.
#[derive(Serialize, Deserialize)]
struct IdWire {
    addr: u16,
    gen: u8,
    pad: Vec<u8>,
}

impl Serialize for Id {
    fn serialize<S: Serializer>(&self, s: S) -> Result<S::Ok, S::Error> {
        IdWire { addr: self.addr, gen: self.gen, pad: vec![0xEE; self.pad_len()] }.serialize(s)
    }
}

impl<'de> Deserialize<'de> for Id {
    fn deserialize<D: Deserializer<'de>>(d: D) -> Result<Self, D::Error> {
        let w = IdWire::deserialize(d)?;
        if w.pad.len() != (w.addr % 3) as usize || w.pad.iter().any(|b| *b != 0xEE) {
            return Err(serde::de::Error::custom("bad identity padding"));
        }
        Ok(Id::new(w.addr, w.gen))
    }
}
