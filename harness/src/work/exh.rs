//! Bounded-exhaustive histories: every sequence of abstract operations up to
//! a depth over a small alphabet, on one instance, under the armed monitors.
use crate::bcast::HdlCfg;
use crate::codecs::CodecKind;
use crate::ids::{Id, Renew};
use crate::mon::{Arm, Watch};
use crate::node::{Cfg, Node, Op};
use crate::run::{Acc, Ctx, Verdict};
use crate::util::fp;
use crate::wire;
use foca::{Header, Member, Message, State, Timer};
use serde_json::json;

pub const ALPHABET: usize = 16;

struct Inst {
    node: Node,
    watch: Watch,
    /// (deadline, seq, timer)
    timers: Vec<(u64, u64, Timer<Id>)>,
    now: u64,
    seq: u64,
    last_s2d: Option<Timer<Id>>,
}

const A: Id = Id::new(1, 0);
const A2: Id = Id::new(1, 1);
const B: Id = Id::new(2, 0);

fn dgram(codec: CodecKind, src: Id, dst: Id, msg: Message<Id>, ups: Option<&[Member<Id>]>) -> Vec<u8> {
    let h = Header { src, src_incarnation: 0, dst, message: msg };
    wire::build(codec, &h, ups, &[])
}

impl Inst {
    fn op(&mut self, code: usize) -> Option<Op> {
        let me = self.node.id();
        let codec = self.node.codec;
        let inc = self.node.last.snap.incarnation;
        Some(match code {
            0 => Op::Apply(vec![Member::new(A, 0, State::Alive)], true),
            1 => Op::Apply(vec![Member::new(B, 0, State::Alive)], true),
            2 => Op::Apply(vec![Member::new(A, 0, State::Suspect)], true),
            3 => Op::Apply(vec![Member::new(A, 0, State::Down)], true),
            4 => Op::Apply(vec![Member::new(A2, 0, State::Alive)], false),
            5 => Op::Apply(vec![Member::new(me, 0, State::Down)], true),
            6 => Op::Apply(vec![Member::new(me, inc, State::Suspect)], true),
            7 => Op::Apply(vec![Member::new(me, u16::MAX, State::Suspect), Member::new(B, 1, State::Alive)], true),
            8 => {
                // next timer in deadline order
                if self.timers.is_empty() {
                    return None;
                }
                let mut best = 0;
                for i in 1..self.timers.len() {
                    if (self.timers[i].0, self.timers[i].1) < (self.timers[best].0, self.timers[best].1) {
                        best = i;
                    }
                }
                let (dl, _, t) = self.timers.swap_remove(best);
                self.now = self.now.max(dl);
                Op::Timer(t)
            }
            9 => Op::Leave,
            10 => Op::Reuse,
            11 => Op::ChangeId(Id::with(me.addr, me.gen.wrapping_add(1), me.policy)),
            12 => Op::Data(dgram(codec, A, me, Message::Ping(3), Some(&[]))),
            13 => Op::Data(dgram(codec, A, me, Message::TurnUndead, None)),
            14 => Op::Data(dgram(codec, B, me, Message::Gossip, Some(&[Member::new(A, 0, State::Down), Member::new(me, inc, State::Suspect)]))),
            _ => {
                // the most recent suspicion timeout once more (a duplicate/stale delivery), else a forget-timer
                match &self.last_s2d {
                    Some(t) if !crate::run::tracing() || true => Op::Timer(t.clone()),
                    _ => Op::Timer(Timer::RemoveDown(A)),
                }
            }
        })
    }
}

/// case → (policy, first two ops); enumerates every continuation up to `depth` ops in total.
pub fn exh_case(ctx: &Ctx, case: u64, acc: &mut Acc, arm: Arm, depth: usize) -> Verdict {
    let policy = if case % 2 == 0 { Renew::Bump } else { Renew::None };
    let prefix = (case / 2) as usize % (ALPHABET * ALPHABET);
    let first = [prefix / ALPHABET, prefix % ALPHABET];
    let mut cfg = Cfg::simple();
    cfg.notify_down = (case / 2 / (ALPHABET * ALPHABET) as u64) % 2 == 0;
    cfg.pg = Some((cfg.p / 2, 2));
    cfg.rda = 10 * cfg.p;
    let mut idx = vec![0usize; depth];
    idx[0] = first[0];
    idx[1] = first[1];
    let mut count = 0u64;
    loop {
        // run one history
        let hcfg = HdlCfg::disabled();
        let node = Node::new(Id::with(0, 0, policy), cfg.clone(), CodecKind::Hand, hcfg, ctx.seed ^ 0xE4);
        // arbitrary-order timers are not part of this workload: deadline order, so C13's strict mode applies;
        // op 15 re-delivers a timer (a duplicate), which violates C13's exactly-once premise → not armed strictly
        let mut inst = Inst { node, watch: Watch::new(CodecKind::Hand, arm, false, hcfg), timers: vec![], now: 0, seq: 0, last_s2d: None };
        let mut executed = 0;
        for &code in idx.iter() {
            if inst.node.poisoned {
                break;
            }
            if arm.c13 && code == 15 {
                continue;
            }
            let Some(op) = inst.op(code) else { continue };
            let rec = inst.node.call(op);
            inst.watch.observe(&rec, acc)?;
            executed += 1;
            for (t, after) in rec.scheds() {
                inst.seq += 1;
                if matches!(t, Timer::ChangeSuspectToDown { .. }) {
                    inst.last_s2d = Some(t.clone());
                }
                inst.timers.push((inst.now + after.as_micros() as u64, inst.seq, t.clone()));
            }
        }
        count += 1;
        acc.tally("exhaustive_calls", executed);
        if executed >= 2 {
            acc.nontrivial(fp(&(case, &idx)));
        }
        // next continuation (positions 2..)
        let mut p = depth;
        loop {
            if p == 2 {
                acc.tally("exhaustive_histories", count);
                acc.exhaustive_parts.insert(format!("every history of {depth} abstract operations over a {ALPHABET}-letter alphabet, renewable and non-renewable identity, notify_down_members on/off"));
                if case < 2 {
                    acc.sample(|| json!({"workload": "exh", "depth": depth, "alphabet": ALPHABET, "prefix": first, "histories_in_this_case": count}));
                }
                return Ok(());
            }
            p -= 1;
            idx[p] += 1;
            if idx[p] < ALPHABET {
                break;
            }
            idx[p] = 0;
        }
    }
}
