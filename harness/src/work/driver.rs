//! Single-instance history driver: one real instance, scripted peers that
//! send well-formed datagrams with adversarial fields (and corruptions of
//! them), a virtual clock and several timer-delivery disciplines.
use crate::bcast::{make_item, HdlCfg};
use crate::codecs::CodecKind;
use crate::gen;
use crate::ids::Id;
use crate::mon::{Arm, Watch};
use crate::node::{CallRec, Cfg, Node, Op, Res};
use crate::run::{Acc, Ctx, V};
use crate::util::Rng64;
use crate::wire;
use foca::{Header, Member, Message, State, Timer};

#[derive(Clone, Copy, Debug, PartialEq, Eq, Hash)]
pub enum TimerMode {
    /// deadline order (ties by Timer's Ord), possibly late
    InOrder,
    /// arbitrary order
    Shuffled,
}

pub struct Pending {
    pub deadline: u64,
    pub seq: u64,
    pub timer: Timer<Id>,
}

pub struct Driver {
    pub node: Node,
    pub watch: Watch,
    pub r: Rng64,
    pub now: u64,
    pub timers: Vec<Pending>,
    pub mode: TimerMode,
    pub inbox: Vec<Vec<u8>>,
    /// last probe number seen on an outgoing Ping
    pub probe_nr: u8,
    /// last header incarnation seen on an outgoing datagram
    pub own_inc: u16,
    pub seq: u64,
    pub item_tag: u32,
    pub dup_timers: bool,
    pub stats: DriverStats,
    pub peers_hi: u16,
    /// every address a record was ever held for (moving onto one of them would make the instance share an address
    /// with a member it has talked about: the user's mistake, not foca's)
    pub seen_addrs: std::collections::BTreeSet<u16>,
}

#[derive(Default, Clone, Debug)]
pub struct DriverStats {
    pub calls: u64,
    pub sends: u64,
    pub crafted: u64,
    pub corrupted: u64,
    pub timers: u64,
    pub errors: u64,
    pub identity_changes: u64,
    pub own_addr_records: u64,
    pub self_updates: u64,
}

pub fn min_mps(c: CodecKind) -> usize {
    match c {
        CodecKind::Hand | CodecKind::HandDirty => 48,
        CodecKind::Postcard => 56,
        CodecKind::BincodeStd => 64,
        CodecKind::BincodeLegacy => 128,
    }
}

fn timer_ord(t: &Timer<Id>) -> u8 {
    // mirrors the documented tie-break order of Timer's Ord (runtime.rs)
    match t {
        Timer::SendIndirectProbe { .. } => 0,
        Timer::ProbeRandomMember(_) => 1,
        Timer::ChangeSuspectToDown { .. } => 2,
        Timer::PeriodicAnnounce(_) => 3,
        Timer::PeriodicGossip(_) => 4,
        Timer::RemoveDown(_) => 5,
        Timer::PeriodicAnnounceDown(_) => 6,
    }
}

impl Driver {
    pub fn new(ctx: &Ctx, salt: u64, case: u64, arm: Arm) -> Self {
        let mut r = Rng64::derive(ctx.seed, salt, case);
        let codec = gen::codec(&mut r);
        let mut cfg = gen::cfg_small(&mut r);
        cfg.mps = cfg.mps.max(min_mps(codec));
        let tiny_ok = arm.c07 || !(arm.c08 || arm.c09 || arm.c10 || arm.c11 || arm.c12 || arm.c13 || arm.c15 || arm.c16 || arm.c19);
        if r.chance(1, 12) && tiny_ok {
            // (only where the verdict does not depend on calls running to completion: C07's grammar and
            // the un-monitored uses by C06/C17) packets so small that only some headers fit (identity encodings vary in length):
            // sends fail and succeed in turn
            cfg.mps = r.range(min_mps(codec) as u64 / 5, min_mps(codec) as u64) as usize;
        }
        // keep forgetting within reach of the virtual clock in some cases
        if r.chance(1, 3) {
            cfg.rda = cfg.p * r.range(2, 30);
        }
        let hcfg: HdlCfg = gen::hdl(&mut r);
        let me = Id::with(0, r.below(3) as u8, gen::renew_policy(&mut r));
        let mode = if r.chance(1, 2) { TimerMode::InOrder } else { TimerMode::Shuffled };
        let node = Node::new(me, cfg, codec, hcfg, r.next());
        let watch = Watch::new(codec, arm, mode == TimerMode::InOrder, hcfg);
        Driver {
            node,
            watch,
            r,
            now: 0,
            timers: vec![],
            mode,
            inbox: vec![],
            probe_nr: 0,
            own_inc: 0,
            seq: 0,
            item_tag: 0,
            dup_timers: !arm.c13,
            stats: Default::default(),
            peers_hi: 5,
            seen_addrs: Default::default(),
        }
    }

    pub fn me(&self) -> Id {
        self.node.id()
    }

    pub fn peer(&mut self) -> Id {
        Id::new(self.r.range(1, self.peers_hi as u64) as u16, self.r.below(4) as u8)
    }

    /// identity with a bias towards ones the instance knows
    pub fn known_or_random_peer(&mut self) -> Id {
        let st = &self.node.last.state;
        if !st.is_empty() && self.r.chance(2, 3) {
            *st[self.r.usize(st.len())].id()
        } else {
            self.peer()
        }
    }

    fn own_gen_other(&mut self) -> Id {
        let me = self.me();
        Id::new(me.addr, self.r.below(4) as u8)
    }

    fn any_id(&mut self) -> Id {
        match self.r.below(10) {
            0 => self.me(),
            1 => self.own_gen_other(),
            _ => self.known_or_random_peer(),
        }
    }

    fn nr(&mut self) -> u8 {
        match self.r.below(6) {
            0 => self.probe_nr.wrapping_sub(1),
            1 => self.probe_nr.wrapping_add(1),
            2 => self.r.next() as u8,
            _ => self.probe_nr,
        }
    }

    fn self_inc(&mut self) -> u16 {
        match self.r.below(8) {
            0 => self.own_inc.wrapping_sub(1),
            1 => self.own_inc.saturating_add(1),
            2 => u16::MAX - 1,
            3 => u16::MAX,
            4 => self.r.next() as u16,
            _ => self.own_inc,
        }
    }

    pub fn craft_update(&mut self) -> Member<Id> {
        match self.r.below(10) {
            0 | 1 => {
                self.stats.self_updates += 1;
                let me = self.me();
                let st = *self.r.pick(&[State::Suspect, State::Suspect, State::Alive, State::Down]);
                Member::new(me, self.self_inc(), st)
            }
            2 => {
                let id = self.own_gen_other();
                Member::new(id, gen::small_inc(&mut self.r), gen::state(&mut self.r))
            }
            _ => {
                let id = self.known_or_random_peer();
                let inc = if self.r.chance(3, 4) { gen::small_inc(&mut self.r) } else { gen::inc(&mut self.r) };
                Member::new(id, inc, gen::state(&mut self.r))
            }
        }
    }

    pub fn craft_message(&mut self) -> Message<Id> {
        match self.r.below(14) {
            0 | 1 => Message::Ping(self.nr()),
            2 | 3 => Message::Ack(self.nr()),
            4 => Message::PingReq { target: self.any_id(), probe_number: self.nr() },
            5 => Message::IndirectPing { origin: self.any_id(), probe_number: self.nr() },
            6 => Message::IndirectAck { target: self.any_id(), probe_number: self.nr() },
            7 => Message::ForwardedAck { origin: self.any_id(), probe_number: self.nr() },
            8 | 9 => Message::Gossip,
            10 => Message::Announce,
            11 => Message::Feed,
            12 => Message::Broadcast,
            _ => Message::TurnUndead,
        }
    }

    pub fn next_item(&mut self) -> Vec<u8> {
        self.item_tag += 1;
        let len = if self.r.chance(1, 5) { self.r.range(1, 5) } else { self.r.range(6, 20) } as usize;
        make_item(self.item_tag, self.r.below(4) as u8, self.r.below(5) as u8, len, 0xCD)
    }

    /// A well-formed datagram with adversarial fields; sometimes corrupted.
    pub fn craft_datagram(&mut self) -> Vec<u8> {
        let me = self.me();
        let src = match self.r.below(40) {
            0 => me,
            1 | 2 => self.own_gen_other(),
            _ => self.known_or_random_peer(),
        };
        let dst = match self.r.below(20) {
            0 => self.own_gen_other(),
            1 => self.peer(),
            _ => me,
        };
        let message = self.craft_message();
        let src_incarnation = if self.r.chance(4, 5) { gen::small_inc(&mut self.r) } else { gen::inc(&mut self.r) };
        let h = Header { src, src_incarnation, dst, message };
        let members: Option<Vec<Member<Id>>> = if wire::piggybacks(&h.message) && self.r.chance(5, 6) {
            let k = self.r.below(5);
            Some((0..k).map(|_| self.craft_update()).collect())
        } else {
            None
        };
        let mut items = vec![];
        if wire::may_carry_custom(&h.message) && (members.is_some() || h.message == Message::Broadcast) && self.r.chance(1, 3) {
            for _ in 0..self.r.range(1, 2) {
                items.push(self.next_item());
            }
        }
        let mut d = wire::build(self.node.codec, &h, members.as_deref(), &items);
        self.stats.crafted += 1;
        if self.r.chance(1, 12) {
            self.stats.corrupted += 1;
            match self.r.below(5) {
                0 => {
                    let cut = self.r.usize(d.len().max(1));
                    d.truncate(cut);
                }
                1 => {
                    for _ in 0..self.r.range(1, 3) {
                        if !d.is_empty() {
                            let i = self.r.usize(d.len());
                            d[i] ^= 1 << self.r.below(8);
                        }
                    }
                }
                2 => d.push(self.r.next() as u8),
                3 => {
                    let extra = self.node.cfg.mps + 1 + self.r.usize(8);
                    d.resize(extra, 0);
                }
                _ => {
                    let n = self.r.usize(40);
                    d = self.r.bytes(n);
                }
            }
        }
        d
    }

    pub fn pick_timer(&mut self) -> Option<Timer<Id>> {
        if self.timers.is_empty() {
            return None;
        }
        let idx = match self.mode {
            TimerMode::InOrder => {
                let mut best = 0;
                for i in 1..self.timers.len() {
                    let a = &self.timers[i];
                    let b = &self.timers[best];
                    if (a.deadline, timer_ord(&a.timer), a.seq) < (b.deadline, timer_ord(&b.timer), b.seq) {
                        best = i;
                    }
                }
                best
            }
            TimerMode::Shuffled => self.r.usize(self.timers.len()),
        };
        let dup = self.dup_timers && self.r.chance(1, 15);
        let p = if dup {
            let p = &self.timers[idx];
            Pending { deadline: p.deadline, seq: p.seq, timer: p.timer.clone() }
        } else {
            self.timers.swap_remove(idx)
        };
        if p.deadline > self.now {
            self.now = p.deadline;
        }
        if self.r.chance(1, 6) {
            // late
            self.now += self.r.below(2 * self.node.cfg.p);
        }
        Some(p.timer)
    }

    pub fn random_api_op(&mut self) -> Op {
        let me = self.me();
        match self.r.below(16) {
            0 | 1 => Op::Announce(self.any_id()),
            2 | 3 => Op::Gossip,
            4 => Op::Leave,
            5 => Op::Reuse,
            6 => {
                let g = if self.r.chance(3, 4) { me.gen.wrapping_add(1) } else { self.r.below(4) as u8 };
                // mostly the same address; sometimes a move to another one (outside the peers' 1..=5)
                let addr = if self.r.chance(1, 5) {
                    // never onto an address somebody else is known to hold (that would be two members on one
                    // address: the user's mistake, not foca's)
                    let cand = *self.r.pick(&[0u16, 6, 7]);
                    if self.seen_addrs.contains(&cand) || self.node.last.state.iter().any(|m| m.id().addr == cand) {
                        me.addr
                    } else {
                        cand
                    }
                } else {
                    me.addr
                };
                Op::ChangeId(Id::with(addr, g, me.policy))
            }
            7..=10 => {
                let k = self.r.range(1, 4);
                let ups = (0..k).map(|_| self.craft_update()).collect();
                Op::Apply(ups, self.r.chance(2, 3))
            }
            11 | 12 => match self.r.below(8) {
                0 => Op::AddBroadcast(vec![]),
                1 => Op::AddBroadcast(self.r.bytes(self.node.cfg.mps + 1)),
                _ => Op::AddBroadcast(self.next_item()),
            },
            13 => Op::Broadcast,
            _ => {
                let mut c2 = self.node.cfg.clone();
                match self.r.below(10) {
                    // another packet size (never below what the codec's headers need; the tiny-packet cases keep theirs)
                    9 => {
                        if c2.mps >= min_mps(self.node.codec) {
                            c2.mps = (*self.r.pick(&[40usize, 60, 90, 150, 400, 1400])).max(min_mps(self.node.codec));
                        }
                    }
                    0 => c2.tx = *self.r.pick(&[1u8, 2, 5, 20, 255]),
                    1 => c2.k = self.r.range(1, 4) as usize,
                    2 => c2.pg = None,
                    3 => c2.pa = None,
                    4 => c2.notify_down = !c2.notify_down,
                    5 => c2.p += 1, // invalid: must be refused
                    6 => c2.pad = None,
                    _ => {
                        // switch a periodic task on (refused when it is off; a change of parameters otherwise)
                        let v = Some((self.r.range(c2.p / 3, c2.p * 4), self.r.range(1, 4) as usize));
                        match self.r.below(3) {
                            0 => c2.pa = v,
                            1 => c2.pad = v,
                            _ => c2.pg = v,
                        }
                    }
                }
                Op::SetConfig(c2)
            }
        }
    }

    /// Execute one op, feed the monitors, collect timers and scripted replies.
    pub fn exec(&mut self, op: Op, acc: &mut Acc) -> Result<CallRec, V> {
        let before = self.node.id();
        let rec = self.node.call(op);
        self.stats.calls += 1;
        if matches!(rec.res, Res::Err(_)) {
            self.stats.errors += 1;
        }
        self.watch.observe(&rec, acc)?;
        if rec.post.id != before {
            self.stats.identity_changes += 1;
        }
        if rec.post.state.iter().any(|m| m.id().addr == rec.post.id.addr) {
            self.stats.own_addr_records += 1;
        }
        for m in &rec.post.state {
            self.seen_addrs.insert(m.id().addr);
        }
        for (t, after) in rec.scheds() {
            self.seq += 1;
            self.timers.push(Pending { deadline: self.now + after.as_micros() as u64, seq: self.seq, timer: t.clone() });
        }
        let codec = self.node.codec;
        for (to, data) in rec.sends() {
            self.stats.sends += 1;
            if let Ok((h, _)) = wire::decode_header(codec, data) {
                self.own_inc = h.src_incarnation;
                match h.message {
                    Message::Ping(n) => {
                        self.probe_nr = n;
                        if self.r.chance(3, 5) {
                            let reply = Header { src: *to, src_incarnation: 0, dst: h.src, message: Message::Ack(n) };
                            self.inbox.push(wire::build(codec, &reply, Some(&[]), &[]));
                        }
                    }
                    Message::PingReq { target, probe_number } => {
                        if self.r.chance(1, 2) {
                            let reply = Header {
                                src: *to,
                                src_incarnation: 0,
                                dst: h.src,
                                message: Message::ForwardedAck { origin: target, probe_number },
                            };
                            self.inbox.push(wire::build(codec, &reply, Some(&[]), &[]));
                        }
                    }
                    _ => {}
                }
            }
        }
        Ok(rec)
    }

    /// One random step of the history.
    pub fn step(&mut self, acc: &mut Acc) -> Result<Option<CallRec>, V> {
        if self.node.poisoned {
            return Ok(None);
        }
        let c = self.r.below(100);
        let op = if !self.inbox.is_empty() && c < 30 {
            let k = self.r.usize(self.inbox.len());
            Op::Data(self.inbox.swap_remove(k))
        } else if c < 55 {
            Op::Data(self.craft_datagram())
        } else if c < 82 {
            match self.pick_timer() {
                Some(t) => {
                    self.stats.timers += 1;
                    Op::Timer(t)
                }
                None => Op::Data(self.craft_datagram()),
            }
        } else {
            self.random_api_op()
        };
        self.exec(op, acc).map(Some)
    }

    pub fn finish(&self, acc: &mut Acc) {
        let s = &self.stats;
        acc.tally("driver_calls", s.calls);
        acc.tally("driver_datagrams_out", s.sends);
        acc.tally("driver_crafted_in", s.crafted);
        acc.tally("driver_corrupted_in", s.corrupted);
        acc.tally("driver_timer_events", s.timers);
        acc.tally("driver_errors_returned", s.errors);
        acc.tally("driver_identity_changes", s.identity_changes);
        acc.tally(&format!("driver_timer_mode/{:?}", self.mode), 1);
        acc.tally(&format!("driver_codec/{:?}", self.node.codec), 1);
        if self.watch.shadow_broken {
            acc.tally("cases_with_unarmed_monitor_disagreement", 1);
            if let Some(r) = self.watch.unarmed.first() {
                acc.tally(&format!("unarmed/{r}"), 1);
            }
        }
    }
}

pub fn driver_case(ctx: &Ctx, case: u64, acc: &mut Acc, arm: Arm, steps: usize) -> Result<DriverStats, V> {
    let mut d = Driver::new(ctx, 0xD21, case, arm);
    let want_sample = acc.samples.len() < 2;
    let mut excerpt: Vec<String> = vec![];
    for _ in 0..steps {
        let Some(rec) = d.step(acc)? else { break };
        if want_sample && excerpt.len() < 10 {
            excerpt.push(rec.short());
        }
        if rec.res.is_panic() {
            acc.inconclusive += 1;
            break;
        }
    }
    d.finish(acc);
    if want_sample {
        acc.sample(|| serde_json::json!({"workload": "driver", "case": case, "identity": format!("{:?}", d.node.id()), "codec": format!("{:?}", d.node.codec), "timer_mode": format!("{:?}", d.mode), "config": format!("{:?}", d.node.cfg), "first_calls": excerpt, "stats": format!("{:?}", d.stats)}));
    }
    Ok(d.stats.clone())
}

pub fn _unused(_: Cfg) {}
