//! Simulator traffic under the boundary monitors: a cluster with random
//! drops, a crash, a partition that heals, a graceful leave; timers fire in
//! deadline order (so C13's strict error rule applies).
use crate::bcast::HdlCfg;
use crate::codecs::CodecKind;
use crate::gen;
use crate::ids::Renew;
use crate::mon::Arm;
use crate::node::{CallRec, Cfg, Op, R};
use crate::run::{Acc, Ctx, Verdict, V};
use crate::util::{fp, Rng64};
use crate::work::sim::{form, Sim, JOINS};
use serde_json::json;

pub fn simmon_case(ctx: &Ctx, case: u64, acc: &mut Acc, arm: Arm) -> Verdict {
    let mut r = Rng64::derive(ctx.seed, 0x51A0, case);
    let n = r.range(3, 6) as usize;
    let codec = *r.pick(&[CodecKind::Hand, CodecKind::HandDirty, CodecKind::Postcard, CodecKind::BincodeStd]);
    let p = 3 * R;
    let cfg = Cfg {
        p,
        r: R,
        k: r.range(1, 3) as usize,
        tx: *r.pick(&[1u8, 2, 4, 10]),
        s2d: p * r.range(2, 4),
        rda: p * r.range(6, 30),
        mps: *r.pick(&[90usize, 200, 1400]),
        notify_down: r.chance(2, 3),
        pa: gen::periodic(&mut r, p),
        pad: gen::periodic(&mut r, p),
        pg: gen::periodic(&mut r, p),
    };
    let hcfg = if r.chance(1, 2) { HdlCfg::simple() } else { HdlCfg::disabled() };
    let mut sim = Sim::new(r.next(), codec, (1, R * 9 / 10));
    for a in 0..n {
        let pol = if r.chance(2, 3) { Renew::Bump } else { Renew::None };
        sim.add(a as u16, cfg.clone(), pol, hcfg, Some(arm));
    }
    let mut nop = |_: &Sim, _: usize, _: &CallRec| -> Result<(), V> { Ok(()) };
    let join = *r.pick(&JOINS);
    form(&mut sim, n, join, 2 * p, acc, &mut nop)?;
    if case % 16 == 0 {
        // a long quiet stretch first: more than 256 probe rounds, so that the u8 probe numbers wrap
        let t_quiet = sim.now + 270 * p;
        sim.run_until(t_quiet, acc, &mut nop)?;
        acc.tally("simmon_long_quiet_runs", 1);
    }
    // a script of disturbances over 60 periods
    let mut t = sim.now;
    let mut script = vec![];
    for _ in 0..r.range(2, 6) {
        t += r.range(p, 8 * p);
        let what = r.below(6);
        script.push((t, what));
    }
    let end = t + 12 * p;
    let mut dropped_budget = 0u64;
    for (at, what) in script {
        sim.run_until(at, acc, &mut nop)?;
        match what {
            0 => {
                // lose the next datagram
                sim.drop_index = Some(sim.sent + r.below(4));
                dropped_budget += 1;
            }
            1 => {
                let x = r.usize(n);
                sim.nodes[x].crashed = true;
            }
            2 => {
                let mut part = vec![0u8; n];
                for s in part.iter_mut() {
                    *s = r.below(2) as u8;
                }
                sim.part = Some(part);
            }
            3 => {
                sim.part = None;
                sim.isolate = None;
            }
            4 => {
                let x = r.usize(n);
                if !sim.nodes[x].crashed && !sim.nodes[x].node.poisoned {
                    sim.call(x, Op::Leave, acc)?;
                }
            }
            _ => {
                let x = r.usize(n);
                if !sim.nodes[x].crashed && !sim.nodes[x].node.poisoned && hcfg.enabled {
                    let item = crate::bcast::make_item(case as u32 * 16 + x as u32, x as u8, 1, 12, 0x42);
                    sim.call(x, Op::AddBroadcast(item), acc)?;
                }
            }
        }
    }
    sim.part = None;
    sim.run_until(end, acc, &mut nop)?;
    sim.tally_into(acc);
    acc.tally("simmon_runs", 1);
    acc.tally("simmon_disturbances", dropped_budget);
    if sim.calls > 100 {
        acc.nontrivial(fp(&("simmon", case, sim.calls, sim.sent)));
    }
    acc.sample(|| json!({"workload": "simmon", "n": n, "codec": format!("{codec:?}"), "calls": sim.calls, "datagrams": sim.sent}));
    Ok(())
}
