//! Packet-size sweep: for one message kind and one backlog content, sweep
//! max_packet_size one byte at a time from "one byte short of the header"
//! through "everything fits", plus samples up to 64 KiB; every datagram goes
//! through the armed monitors and is delivered to a fresh peer.
use crate::bcast::{make_item, HdlCfg};
use crate::codecs::{CodecKind, ALL_CODECS};
use crate::ids::Id;
use crate::mon::{Arm, Watch};
use crate::node::{Cfg, Node, Op, Res, EK};
use crate::run::{Acc, Ctx, Verdict, V};
use crate::util::{fp, Rng64};
use crate::wire::{self, KINDS};
use foca::{Header, Member, Message, State, Timer};
use serde_json::json;

const ME: Id = Id::new(0, 0);

thread_local! {
    /// set by the C20 through-foca workload
    pub static PANIC_IS_VERDICT: std::cell::Cell<bool> = const { std::cell::Cell::new(false) };
}

struct Plan {
    codec: CodecKind,
    kind: usize,
    actives: Vec<Member<Id>>,
    downs: Vec<Member<Id>>,
    items: Vec<Vec<u8>>,
    notify_down: bool,
    tx: u8,
    k: usize,
    seed: u64,
}

/// Run the plan at one packet size. Returns number of datagrams observed.
fn run_at(plan: &Plan, mps: usize, arm: Arm, acc: &mut Acc) -> Result<u64, V> {
    let mut cfg = Cfg::simple();
    cfg.mps = mps;
    cfg.notify_down = plan.notify_down;
    cfg.tx = plan.tx;
    cfg.k = plan.k;
    let hcfg = HdlCfg::simple();
    let mut node = Node::new(ME, cfg.clone(), plan.codec, hcfg, plan.seed);
    let mut watch = Watch::new(plan.codec, arm, true, hcfg);
    let mut out: Vec<(Id, Vec<u8>)> = vec![];
    let mut probe_timer: Option<Timer<Id>> = None;
    let mut indirect_timer: Option<Timer<Id>> = None;
    let mut exec = |node: &mut Node, watch: &mut Watch, op: Op, acc: &mut Acc, collect: bool, out: &mut Vec<(Id, Vec<u8>)>, pt: &mut Option<Timer<Id>>, it: &mut Option<Timer<Id>>| -> Result<Res, V> {
        let rec = node.call(op);
        if let Res::Panic(loc, msg) = &rec.res {
            // C06 owns panics in general; the C20 use of this sweep is precisely about what happens when the space
            // runs out in the middle of a datagram: a panic there is its business
            if PANIC_IS_VERDICT.with(|p| p.get()) {
                return Err(V::new("C07/panic-when-space-runs-out", format!("{} with max_packet_size {mps} panicked at {loc}: {msg}", rec.op.name())));
            }
        }
        watch.observe(&rec, acc)?;
        for (t, _) in rec.scheds() {
            match t {
                Timer::ProbeRandomMember(_) => *pt = Some(t.clone()),
                Timer::SendIndirectProbe { .. } => *it = Some(t.clone()),
                _ => {}
            }
        }
        if let Res::Err(EK::Encode) = rec.res {
            // a send that fails to encode emits nothing for that destination; earlier ones of the same call stand
            acc.tally("sweep_encode_errors", 1);
        }
        if collect {
            for (to, d) in rec.sends() {
                out.push((*to, d.clone()));
            }
        }
        Ok(rec.res.clone())
    };
    // membership and backlog (do_broadcast = true so that every update is pending)
    let mut all: Vec<Member<Id>> = plan.actives.clone();
    all.extend(plan.downs.iter().cloned());
    if !all.is_empty() {
        exec(&mut node, &mut watch, Op::Apply(all, true), acc, false, &mut out, &mut probe_timer, &mut indirect_timer)?;
    }
    for it in &plan.items {
        exec(&mut node, &mut watch, Op::AddBroadcast(it.clone()), acc, false, &mut out, &mut probe_timer, &mut indirect_timer)?;
    }
    let a = plan.actives.first().map(|m| *m.id());
    let b = plan.actives.get(1).map(|m| *m.id());
    let incoming = |src: Id, msg: Message<Id>| -> Vec<u8> {
        let h = Header { src, src_incarnation: 0, dst: ME, message: msg };
        wire::encode_header(plan.codec, &h)
    };
    match KINDS[plan.kind] {
        "Ping" => {
            if let Some(t) = probe_timer.take() {
                exec(&mut node, &mut watch, Op::Timer(t), acc, true, &mut out, &mut probe_timer, &mut indirect_timer)?;
            }
        }
        "PingReq" => {
            if let Some(t) = probe_timer.take() {
                exec(&mut node, &mut watch, Op::Timer(t), acc, false, &mut out, &mut probe_timer, &mut indirect_timer)?;
                if let Some(t2) = indirect_timer.take() {
                    exec(&mut node, &mut watch, Op::Timer(t2), acc, true, &mut out, &mut probe_timer, &mut indirect_timer)?;
                }
            }
        }
        "Ack" => {
            if let Some(a) = a {
                exec(&mut node, &mut watch, Op::Data(incoming(a, Message::Ping(7))), acc, true, &mut out, &mut probe_timer, &mut indirect_timer)?;
            }
        }
        "IndirectPing" => {
            if let (Some(a), Some(b)) = (a, b) {
                exec(&mut node, &mut watch, Op::Data(incoming(a, Message::PingReq { target: b, probe_number: 9 })), acc, true, &mut out, &mut probe_timer, &mut indirect_timer)?;
            }
        }
        "IndirectAck" => {
            if let (Some(a), Some(b)) = (a, b) {
                exec(&mut node, &mut watch, Op::Data(incoming(a, Message::IndirectPing { origin: b, probe_number: 9 })), acc, true, &mut out, &mut probe_timer, &mut indirect_timer)?;
            }
        }
        "ForwardedAck" => {
            if let (Some(a), Some(b)) = (a, b) {
                exec(&mut node, &mut watch, Op::Data(incoming(a, Message::IndirectAck { target: b, probe_number: 9 })), acc, true, &mut out, &mut probe_timer, &mut indirect_timer)?;
            }
        }
        "Gossip" => {
            exec(&mut node, &mut watch, Op::Gossip, acc, true, &mut out, &mut probe_timer, &mut indirect_timer)?;
        }
        "Announce" => {
            exec(&mut node, &mut watch, Op::Announce(Id::new(77, 1)), acc, true, &mut out, &mut probe_timer, &mut indirect_timer)?;
        }
        "Feed" => {
            // a newcomer (or, when nobody is known yet, anybody) announces
            exec(&mut node, &mut watch, Op::Data(incoming(Id::new(88, 2), Message::Announce)), acc, true, &mut out, &mut probe_timer, &mut indirect_timer)?;
        }
        "Broadcast" => {
            exec(&mut node, &mut watch, Op::Broadcast, acc, true, &mut out, &mut probe_timer, &mut indirect_timer)?;
        }
        _ => {
            // TurnUndead: a member we hold as Down talks to us
            if let Some(d) = plan.downs.first() {
                exec(&mut node, &mut watch, Op::Data(incoming(*d.id(), Message::Gossip)), acc, true, &mut out, &mut probe_timer, &mut indirect_timer)?;
            }
        }
    }
    // a send that cannot fit (long identities) followed by one that can (short identities): whatever the
    // failed attempt wrote must not leak into the next datagram
    exec(&mut node, &mut watch, Op::Announce(Id::new(65_534, 200)), acc, true, &mut out, &mut probe_timer, &mut indirect_timer)?;
    exec(&mut node, &mut watch, Op::Announce(Id::new(3, 1)), acc, true, &mut out, &mut probe_timer, &mut indirect_timer)?;
    // acceptance by a fresh peer bearing exactly the destination identity
    let n = out.len() as u64;
    for (to, d) in out {
        let mut peer = Node::new(to, cfg.clone(), plan.codec, hcfg, plan.seed ^ 0x77);
        let rec = peer.call(Op::Data(d.clone()));
        if arm.c07 {
            if let Res::Err(e @ (EK::Decode | EK::MalformedPacket | EK::DataTooBig)) = rec.res {
                return Err(V::new(
                    "C07/rejected-by-peer",
                    format!("{} of {} bytes built at max_packet_size {mps} ({:?}) was rejected by a fresh peer with {e:?}: {}", KINDS[plan.kind], d.len(), plan.codec, crate::util::hex(&d)),
                ));
            }
        }
        if arm.c16 {
            // what the peer's handler saw must be the items the datagram carries
            if let Ok(p) = wire::parse(plan.codec, &d) {
                if matches!(rec.res, Res::Ok) {
                    let seen: Vec<&Vec<u8>> = rec.hlog.iter().map(|e| &e.data).collect();
                    let sent: Vec<&Vec<u8>> = p.items.iter().collect();
                    if seen != sent {
                        return Err(V::new("C16/handler-missed-items", format!("peer handler saw {} items, datagram carries {}", seen.len(), sent.len())));
                    }
                }
            }
        }
        acc.tally("sweep_datagrams_accepted_by_peer", 1);
    }
    Ok(n)
}

pub fn sweep_case(ctx: &Ctx, case: u64, acc: &mut Acc, arm: Arm) -> Verdict {
    let mut r = Rng64::derive(ctx.seed, 0x53EE, case);
    let codec = ALL_CODECS[(case % 5) as usize];
    let kind = ((case / 5) % 11) as usize;
    let n_act = r.range(0, 6) as usize;
    let n_down = r.range(0, 3) as usize;
    // addresses chosen so that encoded identity lengths vary (addr % 3 padding)
    let actives: Vec<Member<Id>> = (0..n_act)
        .map(|i| Member::new(Id::new(10 + i as u16 * 4 + r.below(3) as u16, r.below(3) as u8), *r.pick(&[0u16, 1, 300, 70_00]), if r.chance(1, 4) { State::Suspect } else { State::Alive }))
        .collect();
    let downs: Vec<Member<Id>> = (0..n_down).map(|i| Member::new(Id::new(200 + i as u16 * 4 + r.below(3) as u16, 0), *r.pick(&[0u16, 5]), State::Down)).collect();
    let n_items = r.range(0, 4) as usize;
    let items: Vec<Vec<u8>> = (0..n_items).map(|i| make_item(1000 + i as u32, i as u8, 1, if r.chance(1, 4) { r.range(1, 5) } else { r.range(6, 40) } as usize, 0xA0 + i as u8)).collect();
    let plan = Plan { codec, kind, actives, downs, items, notify_down: true, tx: *r.pick(&[1u8, 2, 10]), k: r.range(1, 3) as usize, seed: r.next() };
    // header length of the datagram of interest: measure with a generous size first
    let mut scratch = Acc::default();
    let probe = {
        let mut cfg = Cfg::simple();
        cfg.mps = 4096;
        cfg.notify_down = true;
        let _ = cfg;
        // run at a large size with monitors armed too: it is a legitimate point of the sweep
        run_at(&plan, 4096, arm, acc)?
    };
    let _ = &mut scratch;
    if probe == 0 {
        acc.tally("sweep_plans_without_datagram", 1);
        return Ok(());
    }
    // sizes: derive the window from the encoded lengths
    let hl_max = {
        let a = Id::new(65_534, 255);
        let h = Header { src: a, src_incarnation: u16::MAX, dst: a, message: Message::PingReq { target: a, probe_number: 255 } };
        wire::encode_header(codec, &h).len()
    };
    let hl_min = {
        let a = Id::new(0, 0);
        let h = Header { src: a, src_incarnation: 0, dst: a, message: Message::Gossip };
        wire::encode_header(codec, &h).len()
    };
    let payload: usize = plan.actives.iter().chain(plan.downs.iter()).map(|m| wire::encode_member(codec, m).len()).sum::<usize>()
        + plan.items.iter().map(|i| i.len() + 2).sum::<usize>();
    let lo = hl_min.saturating_sub(2).max(1);
    let hi = hl_max + 2 + payload + 4;
    let mut total = 0u64;
    for mps in lo..=hi {
        total += run_at(&plan, mps, arm, acc)?;
    }
    for _ in 0..4 {
        let mps = r.range(hi as u64, 65_536) as usize;
        total += run_at(&plan, mps, arm, acc)?;
    }
    acc.tally("sweep_sizes_tried", (hi - lo + 1 + 4) as u64);
    acc.tally("sweep_datagrams", total);
    acc.tally(&format!("sweep_kind/{}", KINDS[kind]), 1);
    acc.exhaustive_parts.insert("max_packet_size swept one byte at a time from below the smallest header to header+everything pending+4".into());
    acc.nontrivial(fp(&(case, kind, format!("{codec:?}"), n_act, n_down, n_items)));
    acc.sample(|| json!({"workload": "sweep", "codec": format!("{codec:?}"), "kind": KINDS[kind], "active": n_act, "down": n_down, "items": n_items, "sizes": [lo, hi], "datagrams": total}));
    Ok(())
}
