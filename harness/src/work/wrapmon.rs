//! Long single-instance histories under the boundary monitors that take the u8
//! epoch token all the way round (several hundred Idle / Defunct / identity
//! changes through every site that bumps it), with the timers of earlier epochs
//! handed back before and after each change - each exactly once, and never more
//! than ~60 epoch changes after they were issued (the statement's "fewer than 256
//! epoch changes between issue and delivery").
use crate::ids::Id;
use crate::mon::basic::Conn;
use crate::mon::Arm;
use crate::node::Op;
use crate::run::{Acc, Ctx, Verdict};
use crate::util::{fp, Rng64};
use crate::work::driver::{Driver, TimerMode};
use foca::{Member, State, Timer};

fn timer_rank(t: &Timer<Id>) -> u8 {
    match t {
        Timer::SendIndirectProbe { .. } => 0,
        Timer::ProbeRandomMember(_) => 1,
        Timer::ChangeSuspectToDown { .. } => 2,
        Timer::PeriodicAnnounce(_) => 3,
        Timer::PeriodicGossip(_) => 4,
        Timer::RemoveDown(_) => 5,
        Timer::PeriodicAnnounceDown(_) => 6,
    }
}

/// Hand back one pending timer: the earliest (deadline order) or any (shuffled).
fn deliver_one(d: &mut Driver, r: &mut Rng64, acc: &mut Acc) -> Result<bool, crate::run::V> {
    // forget-timers a day away stay in the pool (they carry no epoch token)
    let horizon = d.now + 40 * d.node.cfg.p;
    let cand: Vec<usize> = (0..d.timers.len()).filter(|&i| d.timers[i].deadline <= horizon).collect();
    if cand.is_empty() {
        return Ok(false);
    }
    let idx = match d.mode {
        TimerMode::InOrder => *cand.iter().min_by_key(|&&i| (d.timers[i].deadline, timer_rank(&d.timers[i].timer), d.timers[i].seq)).unwrap(),
        TimerMode::Shuffled => cand[r.usize(cand.len())],
    };
    let p = d.timers.swap_remove(idx);
    if p.deadline > d.now {
        d.now = p.deadline;
    }
    if r.chance(1, 6) {
        d.now += r.below(2 * d.node.cfg.p);
    }
    d.stats.timers += 1;
    d.exec(Op::Timer(p.timer), acc)?;
    Ok(true)
}

/// Hand back every token-carrying timer issued up to now (newer ones that come due on the way too when
/// delivery is in deadline order).
fn drain(d: &mut Driver, r: &mut Rng64, acc: &mut Acc) -> Verdict {
    let mark = d.seq;
    for _ in 0..400 {
        let old_left = d.timers.iter().any(|p| p.seq <= mark && !matches!(p.timer, Timer::RemoveDown(_)));
        if !old_left || d.node.poisoned {
            break;
        }
        match d.mode {
            TimerMode::InOrder => {
                if !deliver_one(d, r, acc)? {
                    break;
                }
            }
            TimerMode::Shuffled => {
                let cand: Vec<usize> = (0..d.timers.len()).filter(|&i| d.timers[i].seq <= mark && !matches!(d.timers[i].timer, Timer::RemoveDown(_))).collect();
                let idx = cand[r.usize(cand.len())];
                let p = d.timers.swap_remove(idx);
                if p.deadline > d.now {
                    d.now = p.deadline;
                }
                d.stats.timers += 1;
                d.exec(Op::Timer(p.timer), acc)?;
            }
        }
    }
    Ok(())
}

pub fn wrap_case(ctx: &Ctx, case: u64, acc: &mut Acc, arm: Arm) -> Verdict {
    let mut d = Driver::new(ctx, 0xC13F, case, arm);
    d.dup_timers = false;
    let mut r = Rng64::derive(ctx.seed, 0xC13E, case);
    let total = 270 + r.below(330);
    let pre = r.below(total);
    let kinds = [r.below(4), r.below(4)];
    let mut bumps = 0u64;
    for i in 0..total {
        if d.node.poisoned {
            break;
        }
        let kind = if i < pre { kinds[0] } else { kinds[1] };
        // a member to be active with (a fresh generation each time round the five addresses, so that a Down
        // record left behind never stands in the way)
        let peer = Id::new(1 + (i % 5) as u16, ((i / 5) % 250) as u8);
        if d.watch.c08.conn != Conn::Active && (kind != 2 || r.chance(1, 2)) {
            d.exec(Op::Apply(vec![Member::new(peer, (i % 7) as u16, State::Alive)], r.chance(1, 2)), acc)?;
        }
        for _ in 0..r.below(3) {
            deliver_one(&mut d, &mut r, acc)?;
        }
        match kind {
            0 => {
                // the last active member goes down: Idle
                let actives: Vec<Id> = d.node.last.active.clone();
                let ups: Vec<Member<Id>> = actives.iter().map(|m| Member::new(*m, u16::MAX, State::Down)).collect();
                if !ups.is_empty() {
                    d.exec(Op::Apply(ups, r.chance(1, 2)), acc)?;
                }
            }
            1 => {
                let me = d.me();
                d.exec(Op::ChangeId(Id::with(me.addr, me.gen.wrapping_add(1), me.policy)), acc)?;
            }
            2 => {
                d.exec(Op::Leave, acc)?;
                for _ in 0..r.below(2) {
                    deliver_one(&mut d, &mut r, acc)?;
                }
                d.exec(Op::Reuse, acc)?;
            }
            _ => {
                // told that it is down: renews (Rejoin) or goes Defunct; a Defunct instance is revived by hand
                let me = d.me();
                d.exec(Op::Apply(vec![Member::new(me, 0, State::Down)], true), acc)?;
                if d.watch.c08.conn == Conn::Defunct {
                    d.exec(Op::Reuse, acc)?;
                }
            }
        }
        bumps += 1;
        for _ in 0..r.below(3) {
            deliver_one(&mut d, &mut r, acc)?;
        }
        if i % 50 == 49 {
            drain(&mut d, &mut r, acc)?;
        }
    }
    drain(&mut d, &mut r, acc)?;
    d.finish(acc);
    acc.tally("wrap_cases", 1);
    acc.tally("wrap_epoch_changes_driven", bumps);
    acc.max("epoch_changes_in_one_history", bumps);
    acc.nontrivial(fp(&("wrap", case, total, pre, kinds)));
    acc.sample(|| serde_json::json!({"workload": "wrap", "case": case, "epoch_changes": bumps, "first_kind": kinds[0], "first_kind_count": pre, "second_kind": kinds[1], "timer_mode": format!("{:?}", d.mode), "stats": format!("{:?}", d.stats)}));
    Ok(())
}
