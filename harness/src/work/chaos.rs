//! Chaos net: a few real instances, no clock. All datagrams and timers sit in
//! bags; the scheduler picks the next one at random, optionally dropping or
//! duplicating. Realistic datagram contents, adversarial interleavings.
use crate::bcast::{make_item, HdlCfg};
use crate::codecs::CodecKind;
use crate::gen;
use crate::ids::{Id, Renew};
use crate::mon::{Arm, Watch};
use crate::node::{Cfg, Node, Op, Res, EK};
use crate::run::{Acc, Ctx, Verdict, V};
use crate::util::Rng64;
use foca::{Member, Timer};

pub struct Peer {
    pub node: Node,
    pub watch: Watch,
    pub timers: Vec<Timer<Id>>,
}

#[derive(Default, Clone, Debug)]
pub struct ChaosStats {
    pub calls: u64,
    pub sends: u64,
    pub deliveries: u64,
    pub exact_deliveries: u64,
    pub timers: u64,
    pub errors: u64,
    pub identity_changes: u64,
    pub own_addr_records: u64,
}

pub struct ChaosOpts {
    pub arm: Arm,
    pub steps: usize,
    /// allow firing the same timer twice / keeping it (violates C13's premise)
    pub dup_timers: bool,
    pub set_config: bool,
    /// C06: a caught panic is the violation
    pub panic_is_violation: bool,
}

fn min_mps(c: CodecKind) -> usize {
    match c {
        CodecKind::Hand | CodecKind::HandDirty => 48,
        CodecKind::Postcard => 56,
        CodecKind::BincodeStd => 64,
        CodecKind::BincodeLegacy => 128,
    }
}

pub fn chaos_case(ctx: &Ctx, case: u64, acc: &mut Acc, opts: &ChaosOpts) -> Result<ChaosStats, V> {
    let mut r = Rng64::derive(ctx.seed, 0xCA05, case);
    let n = r.range(2, 5) as usize;
    let codec = gen::codec(&mut r);
    let mut cfg = gen::cfg_small(&mut r);
    cfg.mps = cfg.mps.max(min_mps(codec));
    let hcfg: HdlCfg = gen::hdl(&mut r);
    let mut peers: Vec<Peer> = (0..n)
        .map(|a| {
            let pol = gen::renew_policy(&mut r);
            let node = Node::new(Id::with(a as u16, 0, pol), cfg.clone(), codec, hcfg, r.next());
            Peer { node, watch: Watch::new(codec, opts.arm, false, hcfg), timers: vec![] }
        })
        .collect();
    let mut net: Vec<(Id, Vec<u8>, usize)> = vec![]; // (dst, bytes, sender's mps)
    let mut st = ChaosStats::default();
    let mut item_tag = 0u32;
    let want_sample = acc.samples.len() < 2;
    let mut excerpt: Vec<String> = vec![];

    for _step in 0..opts.steps {
        let c = r.below(100);
        let i = r.usize(n);
        // choose an operation
        let (who, op, exact_dst): (usize, Op, bool) = if c < 45 && !net.is_empty() {
            let k = r.usize(net.len());
            let (to, data, smps) = if r.chance(1, 10) { net[k].clone() } else { net.swap_remove(k) };
            if r.chance(1, 8) {
                continue; // dropped
            }
            let Some(j) = peers.iter().position(|p| p.node.id().addr == to.addr) else { continue };
            let exact = peers[j].node.id() == to && peers[j].node.cfg.mps >= smps;
            st.deliveries += 1;
            (j, Op::Data(data), exact)
        } else if c < 78 && !peers[i].timers.is_empty() {
            let k = r.usize(peers[i].timers.len());
            let t = if opts.dup_timers && r.chance(1, 12) { peers[i].timers[k].clone() } else { peers[i].timers.swap_remove(k) };
            st.timers += 1;
            (i, Op::Timer(t), false)
        } else if c < 85 {
            let j = r.usize(n);
            if j == i {
                continue;
            }
            let dst = peers[j].node.id();
            (i, Op::Announce(dst), false)
        } else if c < 88 {
            (i, Op::Gossip, false)
        } else if c < 90 {
            (i, Op::Leave, false)
        } else if c < 92 {
            (i, Op::Reuse, false)
        } else if c < 94 {
            let cur = peers[i].node.id();
            let g = if r.chance(4, 5) { cur.gen.wrapping_add(1) } else { r.below(4) as u8 };
            (i, Op::ChangeId(Id::with(cur.addr, g, cur.policy)), false)
        } else if c < 97 {
            let k = r.range(1, 3);
            let ups: Vec<Member<Id>> = (0..k)
                .map(|_| Member::new(Id::new(r.below(n as u64 + 1) as u16, r.below(3) as u8), gen::small_inc(&mut r), gen::state(&mut r)))
                .collect();
            (i, Op::Apply(ups, r.chance(1, 2)), false)
        } else if c < 99 {
            item_tag += 1;
            let len = if r.chance(1, 5) { r.range(1, 5) } else { r.range(6, 24) } as usize;
            (i, Op::AddBroadcast(make_item(item_tag, r.below(4) as u8, r.below(4) as u8, len, 0xAB)), false)
        } else if opts.set_config && r.chance(1, 2) {
            let mut c2 = peers[i].node.cfg.clone();
            match r.below(8) {
                7 => c2.mps = (*r.pick(&[40usize, 60, 90, 150, 400, 1400])).max(min_mps(codec)),
                0 => c2.tx = *r.pick(&[1u8, 2, 5, 20]),
                1 => c2.k = r.range(1, 4) as usize,
                2 => c2.pg = None,
                3 => c2.pa = None,
                4 => c2.pad = None,
                _ => {
                    // switch a periodic task on (refused when it is off; a change of parameters otherwise)
                    let v = Some((r.range(c2.p / 3, c2.p * 4), r.range(1, 4) as usize));
                    match r.below(3) {
                        0 => c2.pa = v,
                        1 => c2.pad = v,
                        _ => c2.pg = v,
                    }
                }
            }
            (i, Op::SetConfig(c2), false)
        } else {
            (i, Op::Broadcast, false)
        };

        let before = peers[who].node.id();
        let rec = peers[who].node.call(op);
        st.calls += 1;
        if let Res::Err(_) = rec.res {
            st.errors += 1;
        }
        // C07 acceptance: a datagram handed over for exactly this identity must be accepted
        if exact_dst && opts.arm.c07 {
            if let Res::Err(e @ (EK::Decode | EK::MalformedPacket | EK::DataTooBig)) = rec.res {
                return Err(V::new(
                    "C07/rejected-by-peer",
                    format!("peer {:?} rejected a datagram addressed to it with {e:?}: {}", before, rec.short()),
                ));
            }
            st.exact_deliveries += 1;
        }
        peers[who].watch.observe(&rec, acc)?;
        if want_sample && excerpt.len() < 10 && (!rec.evs.is_empty() || excerpt.len() < 3) {
            excerpt.push(format!("[{:?}] {}", before, rec.short()));
        }
        if rec.post.id != before {
            st.identity_changes += 1;
        }
        if rec.post.state.iter().any(|m| m.id().addr == rec.post.id.addr) {
            st.own_addr_records += 1;
        }
        let smps = peers[who].node.cfg.mps;
        for (to, data) in rec.sends() {
            st.sends += 1;
            net.push((*to, data.clone(), smps));
        }
        for (t, _) in rec.scheds() {
            peers[who].timers.push(t.clone());
        }
        if opts.panic_is_violation {
            crate::checks::c06::panic_verdict(&rec)?;
        }
        if rec.res.is_panic() {
            // C06 owns panics; this case cannot continue
            acc.inconclusive += 1;
            break;
        }
        if net.len() > 400 {
            let cut = net.len() - 300;
            net.drain(..cut);
        }
    }
    acc.tally("chaos_calls", st.calls);
    acc.tally("chaos_datagrams", st.sends);
    acc.tally("chaos_deliveries", st.deliveries);
    acc.tally("chaos_exact_deliveries", st.exact_deliveries);
    acc.tally("chaos_timer_events", st.timers);
    acc.tally("chaos_identity_changes", st.identity_changes);
    acc.tally(&format!("chaos_codec/{codec:?}"), 1);
    if peers.iter().any(|p| p.watch.shadow_broken) {
        acc.tally("cases_with_unarmed_monitor_disagreement", 1);
        for p in &peers {
            if let Some(r) = p.watch.unarmed.first() {
                acc.tally(&format!("unarmed/{r}"), 1);
            }
        }
    }
    let _ = Renew::None;
    if want_sample {
        acc.sample(|| serde_json::json!({"workload": "chaos", "case": case, "instances": n, "codec": format!("{codec:?}"), "config": format!("{cfg:?}"), "first_calls_with_effects": excerpt, "stats": format!("{st:?}")}));
    }
    Ok(st)
}

pub fn default_opts(arm: Arm, ctx: &Ctx) -> ChaosOpts {
    let _ = ctx;
    ChaosOpts { arm, steps: if cfg!(miri) { 40 } else { 400 }, dup_timers: !arm.c13, set_config: true, panic_is_violation: false }
}

/// Standard wrapper: run, count non-trivial cases by `interesting`
pub fn run_with(
    ctx: &Ctx,
    case: u64,
    acc: &mut Acc,
    opts: &ChaosOpts,
    interesting: impl Fn(&ChaosStats) -> bool,
) -> Verdict {
    let st = chaos_case(ctx, case, acc, opts)?;
    if interesting(&st) {
        acc.nontrivial(crate::util::fp(&(case, st.calls, st.sends, st.timers, st.identity_changes)));
    }
    Ok(())
}
