//! Deterministic discrete-event cluster simulator (virtual time in µs).
//! Timers fire exactly at their deadline; per-datagram latency is drawn from
//! the seeded PRNG; faults are injected by rule. No wall-clock anywhere.
use crate::bcast::HdlCfg;
use crate::codecs::CodecKind;
use crate::ids::{Id, Renew};
use crate::mon::{Arm, Watch};
use crate::node::{CallRec, Cfg, Node, Note, Op, Res, EK};
use crate::run::{Acc, V};
use crate::util::Rng64;
use crate::wire::{self, kind_name};
use foca::{State, Timer};
use std::cmp::Reverse;
use std::collections::{BTreeMap, BinaryHeap};

pub enum What {
    Deliver { to: Id, data: Vec<u8>, from: usize, index: u64 },
    Fire { node: usize, timer: Timer<Id> },
}

pub struct Item {
    pub t: u64,
    pub seq: u64,
    pub what: What,
}
impl PartialEq for Item {
    fn eq(&self, o: &Self) -> bool {
        self.t == o.t && self.seq == o.seq
    }
}
impl Eq for Item {}
impl PartialOrd for Item {
    fn partial_cmp(&self, o: &Self) -> Option<std::cmp::Ordering> {
        Some(self.cmp(o))
    }
}
impl Ord for Item {
    fn cmp(&self, o: &Self) -> std::cmp::Ordering {
        (self.t, self.seq).cmp(&(o.t, o.seq))
    }
}

pub struct SimNode {
    pub node: Node,
    pub watch: Option<Watch>,
    pub crashed: bool,
    pub left_at: Option<u64>,
    pub notes: Vec<(u64, Note)>,
    pub errs: Vec<(u64, EK, &'static str)>,
}

pub struct Sim {
    pub now: u64,
    seq: u64,
    q: BinaryHeap<Reverse<Item>>,
    pub nodes: Vec<SimNode>,
    pub rng: Rng64,
    /// latency range [lo, hi) in µs
    pub lat: (u64, u64),
    pub codec: CodecKind,
    /// global index of the next datagram handed to the network
    pub sent: u64,
    pub drop_index: Option<u64>,
    pub dropped: Option<(String, usize, Id)>,
    /// partition id per node; datagrams crossing sides vanish
    pub part: Option<Vec<u8>>,
    /// all traffic from/to this node vanishes (asymmetric failure)
    pub isolate: Option<(usize, bool, bool)>,
    pub kinds: BTreeMap<&'static str, u64>,
    pub events: u64,
    pub calls: u64,
    pub suspect_records_seen: u64,
    pub s2d_timers: u64,
    pub turnundead_sent: u64,
    pub pingreq_sent: u64,
    /// datagrams delivered to an address nobody holds / a crashed node
    pub lost: u64,
    pub forget_timers_fired: u64,
}

impl Sim {
    pub fn new(seed: u64, codec: CodecKind, lat: (u64, u64)) -> Self {
        Sim {
            now: 0,
            seq: 0,
            q: BinaryHeap::new(),
            nodes: vec![],
            rng: Rng64::new(seed),
            lat,
            codec,
            sent: 0,
            drop_index: None,
            dropped: None,
            part: None,
            isolate: None,
            kinds: BTreeMap::new(),
            events: 0,
            calls: 0,
            suspect_records_seen: 0,
            s2d_timers: 0,
            turnundead_sent: 0,
            pingreq_sent: 0,
            lost: 0,
            forget_timers_fired: 0,
        }
    }

    pub fn add(&mut self, addr: u16, cfg: Cfg, policy: Renew, hcfg: HdlCfg, arm: Option<Arm>) -> usize {
        let s = self.rng.next();
        let node = Node::new(Id::with(addr, 0, policy), cfg, self.codec, hcfg, s);
        let watch = arm.map(|a| Watch::new(self.codec, a, true, hcfg));
        self.nodes.push(SimNode { node, watch, crashed: false, left_at: None, notes: vec![], errs: vec![] });
        self.nodes.len() - 1
    }

    fn push(&mut self, t: u64, what: What) {
        self.seq += 1;
        self.q.push(Reverse(Item { t, seq: self.seq, what }));
    }

    fn absorb(&mut self, i: usize, rec: &CallRec) {
        for ev in &rec.evs {
            match ev {
                crate::node::Ev::Send { to, data } => {
                    let kind = wire::decode_header(self.codec, data).map(|(h, _)| kind_name(&h.message)).unwrap_or("?");
                    *self.kinds.entry(kind).or_default() += 1;
                    if kind == "TurnUndead" {
                        self.turnundead_sent += 1;
                    }
                    if kind == "PingReq" {
                        self.pingreq_sent += 1;
                    }
                    let index = self.sent;
                    self.sent += 1;
                    if self.drop_index == Some(index) {
                        self.dropped = Some((kind.to_string(), i, *to));
                        continue;
                    }
                    if let Some(p) = &self.part {
                        let a = self.nodes[i].node.id().addr as usize;
                        let b = to.addr as usize;
                        if a < p.len() && b < p.len() && p[a] != p[b] {
                            continue;
                        }
                    }
                    if let Some((x, out, inn)) = self.isolate {
                        let xa = self.nodes[x].node.id().addr;
                        if (out && i == x) || (inn && to.addr == xa) {
                            continue;
                        }
                    }
                    let lat = self.lat.0 + self.rng.below((self.lat.1 - self.lat.0).max(1));
                    let t = self.now + lat;
                    self.push(t, What::Deliver { to: *to, data: data.clone(), from: i, index });
                }
                crate::node::Ev::Sched { timer, after } => {
                    if matches!(timer, Timer::ChangeSuspectToDown { .. }) {
                        self.s2d_timers += 1;
                    }
                    let at = self.now + after.as_micros() as u64;
                    self.push(at, What::Fire { node: i, timer: timer.clone() });
                }
                crate::node::Ev::Notify(n) => {
                    let now = self.now;
                    self.nodes[i].notes.push((now, n.clone()));
                }
            }
        }
    }

    /// Run one public operation on node `i` now.
    pub fn call(&mut self, i: usize, op: Op, acc: &mut Acc) -> Result<CallRec, V> {
        let name = op.name();
        let rec = self.nodes[i].node.call(op);
        self.calls += 1;
        if let Res::Err(e) = &rec.res {
            let now = self.now;
            self.nodes[i].errs.push((now, *e, name));
        }
        if rec.post.state.iter().any(|m| m.state() == State::Suspect) {
            self.suspect_records_seen += 1;
        }
        if let Some(w) = &mut self.nodes[i].watch {
            w.observe(&rec, acc)?;
        }
        self.absorb(i, &rec);
        Ok(rec)
    }

    pub fn node_by_addr(&self, addr: u16) -> Option<usize> {
        self.nodes.iter().position(|n| n.node.id().addr == addr)
    }

    /// Process the next event. Returns (node index, record) when a call happened.
    pub fn step(&mut self, acc: &mut Acc) -> Result<Option<Option<(usize, CallRec)>>, V> {
        let Some(Reverse(it)) = self.q.pop() else { return Ok(None) };
        self.now = it.t;
        self.events += 1;
        match it.what {
            What::Deliver { to, data, .. } => match self.node_by_addr(to.addr) {
                Some(i) if !self.nodes[i].crashed && !self.nodes[i].node.poisoned => {
                    let rec = self.call(i, Op::Data(data), acc)?;
                    Ok(Some(Some((i, rec))))
                }
                _ => {
                    self.lost += 1;
                    Ok(Some(None))
                }
            },
            What::Fire { node, timer } => {
                if self.nodes[node].crashed || self.nodes[node].node.poisoned {
                    return Ok(Some(None));
                }
                if matches!(timer, Timer::RemoveDown(_)) {
                    self.forget_timers_fired += 1;
                }
                let rec = self.call(node, Op::Timer(timer), acc)?;
                Ok(Some(Some((node, rec))))
            }
        }
    }

    pub fn peek_time(&self) -> Option<u64> {
        self.q.peek().map(|Reverse(i)| i.t)
    }

    /// Run every event up to and including time `t`; `on` sees every call.
    pub fn run_until(
        &mut self,
        t: u64,
        acc: &mut Acc,
        on: &mut dyn FnMut(&Sim, usize, &CallRec) -> Result<(), V>,
    ) -> Result<(), V> {
        while let Some(nt) = self.peek_time() {
            if nt > t {
                break;
            }
            if let Some(Some((i, rec))) = self.step(acc)? {
                on(self, i, &rec)?;
            }
        }
        self.now = t;
        Ok(())
    }

    pub fn live(&self) -> Vec<usize> {
        (0..self.nodes.len()).filter(|&i| !self.nodes[i].crashed && self.nodes[i].left_at.is_none()).collect()
    }

    /// i lists j's *current* identity as an active member
    pub fn lists(&self, i: usize, j: usize) -> bool {
        let jid = self.nodes[j].node.id();
        self.nodes[i].node.last.active.contains(&jid)
    }

    pub fn lists_alive(&self, i: usize, j: usize) -> bool {
        let jid = self.nodes[j].node.id();
        self.nodes[i].node.last.state.iter().any(|m| *m.id() == jid && m.state() == State::Alive)
    }

    /// every live instance lists exactly every other live instance (current identity)
    pub fn full_view(&self) -> bool {
        let live = self.live();
        live.iter().all(|&i| {
            self.nodes[i].node.last.num_members == live.len() - 1 && live.iter().all(|&j| i == j || self.lists(i, j))
        })
    }

    pub fn full_view_alive(&self) -> bool {
        let live = self.live();
        live.iter().all(|&i| {
            self.nodes[i].node.last.num_members == live.len() - 1 && live.iter().all(|&j| i == j || self.lists_alive(i, j))
        })
    }

    pub fn tally_into(&self, acc: &mut Acc) {
        for (k, v) in &self.kinds {
            acc.tally(&format!("sim_datagram/{k}"), *v);
        }
        acc.tally("sim_events", self.events);
        acc.tally("sim_calls", self.calls);
    }
}

/// Join schedules
#[derive(Clone, Copy, Debug, PartialEq, Eq, Hash)]
pub enum Join {
    /// one after the other, random gaps, all to node 0
    SeqToFirst,
    /// one after the other, random gaps, to a random already-joined node
    SeqToRandom,
    /// all at the same instant to node 0
    BurstToFirst,
    /// all at the same instant, node i announces to node i-1
    Chain,
    /// all at the same instant to random lower-numbered nodes
    BurstToRandom,
}
pub const JOINS: [Join; 5] = [Join::SeqToFirst, Join::SeqToRandom, Join::BurstToFirst, Join::Chain, Join::BurstToRandom];

/// Make nodes 1..n announce according to the schedule; returns the time of the last announce.
pub fn form(
    sim: &mut Sim,
    n: usize,
    join: Join,
    gap_max: u64,
    acc: &mut Acc,
    on: &mut dyn FnMut(&Sim, usize, &CallRec) -> Result<(), V>,
) -> Result<u64, V> {
    let mut last = sim.now;
    for i in 1..n {
        let seed = match join {
            Join::SeqToFirst | Join::BurstToFirst => 0,
            Join::SeqToRandom | Join::BurstToRandom => sim.rng.usize(i),
            Join::Chain => i - 1,
        };
        let gap = match join {
            Join::SeqToFirst | Join::SeqToRandom => sim.rng.below(gap_max.max(1)),
            _ => 0,
        };
        let t = sim.now + gap;
        sim.run_until(t, acc, on)?;
        let dst = sim.nodes[seed].node.id();
        let rec = sim.call(i, Op::Announce(dst), acc)?;
        on(sim, i, &rec)?;
        last = sim.now;
    }
    Ok(last)
}
