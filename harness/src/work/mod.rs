pub mod chaos;
