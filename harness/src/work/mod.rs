pub mod chaos;
pub mod driver;
