pub mod chaos;
pub mod driver;
pub mod exh;
pub mod sim;
pub mod simmon;
pub mod sweep;
pub mod wrapmon;
