pub mod chaos;
pub mod driver;
pub mod sim;
