//! fv — runtime-monitoring harness for caio/foca. See /verif/DESIGN.md.
#![allow(clippy::too_many_arguments, clippy::type_complexity)]
mod bcast;
mod checks;
mod codecs;
mod gen;
mod ids;
mod model;
mod mon;
mod node;
mod run;
mod util;
mod wire;
mod work;

use run::Tier;

fn usage() -> ! {
    eprintln!("usage: fv run <ID> <quick|thorough> | fv shard <ID> <tier> <k> <n> | fv replay <file> | fv list");
    std::process::exit(2)
}

fn main() {
    let args: Vec<String> = std::env::args().collect();
    match args.get(1).map(|s| s.as_str()) {
        Some("list") => {
            for c in checks::all() {
                println!("{}", c.id);
            }
        }
        Some("run") => {
            let (Some(id), Some(tier)) = (args.get(2), args.get(3).and_then(|t| Tier::parse(t))) else { usage() };
            let Some(check) = checks::get(id) else {
                eprintln!("unknown check {id}");
                std::process::exit(2)
            };
            std::process::exit(run::run_parent(&check, tier));
        }
        Some("shard") => {
            let (Some(id), Some(tier), Some(k), Some(n)) = (
                args.get(2),
                args.get(3).and_then(|t| Tier::parse(t)),
                args.get(4).and_then(|s| s.parse::<u64>().ok()),
                args.get(5).and_then(|s| s.parse::<u64>().ok()),
            ) else {
                usage()
            };
            let Some(check) = checks::get(id) else { usage() };
            let acc = run::run_shard(&check, tier, k, n);
            println!("SHARD-RESULT {}", serde_json::to_string(&acc).expect("json"));
        }
        Some("replay") => {
            let Some(path) = args.get(2) else { usage() };
            let txt = std::fs::read_to_string(path).unwrap_or_else(|e| {
                eprintln!("cannot read {path}: {e}");
                std::process::exit(2)
            });
            let rf: run::ReplayFile = serde_json::from_str(&txt).unwrap_or_else(|e| {
                eprintln!("bad replay file: {e}");
                std::process::exit(2)
            });
            let Some(check) = checks::get(&rf.property) else { usage() };
            std::process::exit(run::replay(&check, &rf, path));
        }
        _ => usage(),
    }
}
