//! Check runner: sharding over child processes, accumulation of what the
//! monitors observed, evidence / replay files, known findings, exit codes.
use serde::{Deserialize, Serialize};
use serde_json::{json, Value};
use std::cell::RefCell;
use std::collections::{BTreeMap, BTreeSet, HashSet};
use std::io::Write;
use std::time::Instant;

#[derive(Clone, Copy, Debug, PartialEq, Eq)]
pub enum Tier {
    Quick,
    Thorough,
}
impl Tier {
    pub fn name(&self) -> &'static str {
        match self {
            Tier::Quick => "quick",
            Tier::Thorough => "thorough",
        }
    }
    pub fn parse(s: &str) -> Option<Tier> {
        match s {
            "quick" => Some(Tier::Quick),
            "thorough" => Some(Tier::Thorough),
            _ => None,
        }
    }
}

/// true when built with debug assertions and overflow checks (`checked`)
pub fn flavour() -> &'static str {
    if cfg!(miri) {
        "miri"
    } else if std::env::var("FV_FLAVOUR").is_ok_and(|v| v == "asan") {
        "asan"
    } else if cfg!(debug_assertions) {
        "checked"
    } else {
        "plain"
    }
}

#[derive(Clone, Debug)]
pub struct Ctx {
    pub seed: u64,
    pub tier: Tier,
    pub property: &'static str,
}

thread_local! {
    static TRACE: RefCell<Option<Vec<String>>> = const { RefCell::new(None) };
}
pub fn tracing() -> bool {
    TRACE.with(|t| t.borrow().is_some())
}
pub fn set_tracing(on: bool) {
    TRACE.with(|t| *t.borrow_mut() = if on { Some(vec![]) } else { None });
}
pub fn trace(s: impl FnOnce() -> String) {
    TRACE.with(|t| {
        if let Some(v) = t.borrow_mut().as_mut() {
            v.push(s());
        }
    });
}
pub fn take_trace() -> Vec<String> {
    TRACE.with(|t| t.borrow_mut().as_mut().map(std::mem::take).unwrap_or_default())
}

/// A monitor verdict
#[derive(Clone, Debug, Serialize, Deserialize)]
pub struct V {
    /// rule id, e.g. "C07/len>mps"
    pub rule: String,
    pub msg: String,
}
impl V {
    pub fn new(rule: &str, msg: impl Into<String>) -> Self {
        V { rule: rule.to_string(), msg: msg.into() }
    }
}
pub type Verdict = Result<(), V>;
#[macro_export]
macro_rules! ensure {
    ($cond:expr, $rule:expr, $($arg:tt)*) => {
        if !($cond) {
            return Err($crate::run::V::new($rule, format!($($arg)*)));
        }
    };
}

#[derive(Clone, Debug, Serialize, Deserialize)]
pub struct Viol {
    pub property: String,
    pub rule: String,
    /// signature used for known-finding matching
    pub sig: String,
    pub msg: String,
    pub workload: String,
    pub case: u64,
    pub seed: u64,
    pub tier: String,
    pub flavour: String,
    pub trace: Vec<String>,
}

#[derive(Default, Serialize, Deserialize)]
pub struct Acc {
    pub evaluations: u64,
    pub inconclusive: u64,
    pub fps: HashSet<u64>,
    pub fps_overflow: u64,
    pub samples: Vec<Value>,
    pub tallies: BTreeMap<String, u64>,
    pub maxima: BTreeMap<String, u64>,
    pub viols: Vec<Viol>,
    pub notes: BTreeSet<String>,
    pub watchdog_stopped: bool,
    pub exhaustive_parts: BTreeSet<String>,
    pub per_workload: BTreeMap<String, u64>,
    /// (workload, case) pairs a workload wants remembered as witnesses for an aggregate verdict
    #[serde(default)]
    pub flagged: Vec<(String, u64)>,
}

const FPS_CAP: usize = 400_000;

impl Acc {
    pub fn tally(&mut self, k: &str, n: u64) {
        *self.tallies.entry(k.to_string()).or_default() += n;
    }
    pub fn max(&mut self, k: &str, v: u64) {
        let e = self.maxima.entry(k.to_string()).or_default();
        if v > *e {
            *e = v;
        }
    }
    /// record a distinct non-trivial case fingerprint
    pub fn nontrivial(&mut self, fp: u64) {
        if self.fps.len() < FPS_CAP {
            self.fps.insert(fp);
        } else if !self.fps.contains(&fp) {
            self.fps_overflow += 1;
        }
    }
    pub fn sample(&mut self, v: impl FnOnce() -> Value) {
        if self.samples.len() < 2 {
            self.samples.push(v());
        }
    }
    pub fn flag(&mut self, workload: &str, case: u64) {
        if self.flagged.len() < 20 {
            self.flagged.push((workload.to_string(), case));
        }
    }
    pub fn note(&mut self, s: &str) {
        if self.notes.len() < 40 {
            self.notes.insert(s.to_string());
        }
    }
    fn merge(&mut self, o: Acc) {
        self.evaluations += o.evaluations;
        self.inconclusive += o.inconclusive;
        for f in o.fps {
            if self.fps.len() < FPS_CAP * 16 {
                self.fps.insert(f);
            }
        }
        self.fps_overflow += o.fps_overflow;
        for s in o.samples {
            if self.samples.len() < 6 {
                self.samples.push(s);
            }
        }
        for (k, v) in o.tallies {
            *self.tallies.entry(k).or_default() += v;
        }
        for (k, v) in o.maxima {
            let e = self.maxima.entry(k).or_default();
            if v > *e {
                *e = v;
            }
        }
        self.viols.extend(o.viols);
        self.notes.extend(o.notes);
        self.watchdog_stopped |= o.watchdog_stopped;
        self.exhaustive_parts.extend(o.exhaustive_parts);
        for (k, v) in o.per_workload {
            *self.per_workload.entry(k).or_default() += v;
        }
        for f in o.flagged {
            if self.flagged.len() < 20 {
                self.flagged.push(f);
            }
        }
    }
}

#[derive(Clone, Copy, PartialEq, Eq, Debug)]
pub enum Flav {
    Checked,
    Plain,
    Both,
}

/// Workloads that are repeated under the sanitizers in the thorough tier:
/// (check, workload, cases under Miri, cases under AddressSanitizer).
/// Only C06 and C20 talk about panics / reading past the input; foca has no
/// unsafe code, so the sanitizers watch what it reaches in bytes/bincode/postcard/std.
pub const SANITIZER_PLAN: &[(&str, &str, u64, u64)] = &[
    ("C06", "fuzz_plain", 32, 6_000),
    ("C06", "fuzz_full", 32, 6_000),
    ("C06", "chaos", 16, 3_000),
    ("C20", "codec", 32, 60_000),
];

pub type CaseFn = fn(&Ctx, u64, &mut Acc) -> Verdict;

pub struct Workload {
    pub name: &'static str,
    pub f: CaseFn,
    pub quick: u64,
    pub thorough: u64,
    pub flav: Flav,
}

pub struct Check {
    pub id: &'static str,
    pub level: &'static str,
    pub rule: &'static str,
    pub assumptions: &'static [&'static str],
    /// tallies that must be non-zero for the run to count as having observed something
    pub required: &'static [&'static str],
    pub workloads: Vec<Workload>,
    pub exhaustive: bool,
    /// verdict over the merged observations of the whole run (rates); the violation names one flagged case as
    /// its replayable witness
    pub aggregate: Option<fn(&Acc) -> Option<V>>,
}

fn cases_for(w: &Workload, tier: Tier) -> u64 {
    let n = match tier {
        Tier::Quick => w.quick,
        Tier::Thorough => w.thorough,
    };
    // VERIF_SCALE (percent) lets development runs shrink or grow a check
    match std::env::var("VERIF_SCALE").ok().and_then(|s| s.parse::<u64>().ok()) {
        Some(pct) => (n * pct / 100).max(1),
        None => n,
    }
}

pub fn seed_from_env() -> u64 {
    std::env::var("VERIF_SEED").ok().and_then(|s| s.trim().parse::<u64>().ok()).unwrap_or(1)
}

fn watchdog_secs(tier: Tier) -> u64 {
    if let Some(s) = std::env::var("VERIF_WATCHDOG").ok().and_then(|s| s.parse().ok()) {
        return s;
    }
    match tier {
        Tier::Quick => 240,
        Tier::Thorough => 3600,
    }
}

/// Run one case; on violation re-run it with tracing to capture the witness.
pub fn run_case(check: &Check, w: &Workload, ctx: &Ctx, case: u64, acc: &mut Acc) {
    acc.evaluations += 1;
    *acc.per_workload.entry(w.name.to_string()).or_default() += 1;
    // a panic escaping a case is a harness-level failure of that case (foca's own panics are caught
    // around every call in node.rs): counted, noted, never a verdict
    let r = match std::panic::catch_unwind(std::panic::AssertUnwindSafe(|| (w.f)(ctx, case, acc))) {
        Ok(r) => r,
        Err(_) => {
            let (loc, msg) = crate::node::take_last_panic().unwrap_or_default();
            acc.inconclusive += 1;
            acc.tally("harness_panics", 1);
            acc.note(&format!("harness panic in {}/{case}: {loc}: {msg}", w.name));
            return;
        }
    };
    if let Err(v) = r {
        let already = acc.viols.iter().filter(|x| x.rule == v.rule).count();
        if already >= 3 {
            acc.tally(&format!("violations_suppressed/{}", v.rule), 1);
            return;
        }
        // witness: re-run with tracing on, into a scratch accumulator
        set_tracing(true);
        let mut scratch = Acc::default();
        let r2 = (w.f)(ctx, case, &mut scratch);
        let mut tr = take_trace();
        set_tracing(false);
        if tr.len() > 120 {
            let cut = tr.len() - 120;
            tr.drain(..cut);
            tr.insert(0, format!("... ({cut} earlier calls omitted)"));
        }
        if r2.is_ok() {
            tr.push("WARNING: violation did not reproduce on the traced re-run".into());
        }
        acc.viols.push(Viol {
            property: check.id.to_string(),
            sig: v.rule.clone(),
            rule: v.rule,
            msg: v.msg,
            workload: w.name.to_string(),
            case,
            seed: ctx.seed,
            tier: ctx.tier.name().to_string(),
            flavour: flavour().to_string(),
            trace: tr,
        });
    }
}

/// Child: run shard `k` of `n` of every workload whose flavour matches.
pub fn run_shard(check: &Check, tier: Tier, k: u64, n: u64) -> Acc {
    crate::node::install_panic_hook();
    let ctx = Ctx { seed: seed_from_env(), tier, property: check.id };
    let mut acc = Acc::default();
    let start = Instant::now();
    let wd = watchdog_secs(tier);
    let only = std::env::var("VERIF_ONLY").ok();
    'outer: for w in &check.workloads {
        if let Some(o) = &only {
            if !o.split(',').any(|x| x == w.name) {
                continue;
            }
        }
        let fl = flavour();
        let total = if fl == "miri" || fl == "asan" {
            match SANITIZER_PLAN.iter().find(|(c, wn, _, _)| *c == check.id && *wn == w.name) {
                Some((_, _, m, a)) => {
                    if fl == "miri" {
                        *m
                    } else {
                        *a
                    }
                }
                None => continue,
            }
        } else {
            let mine = match (w.flav, fl) {
                (Flav::Both, _) => true,
                (Flav::Checked, "checked") => true,
                (Flav::Plain, "plain") => true,
                _ => false,
            };
            if !mine {
                continue;
            }
            cases_for(w, tier)
        };
        acc.tally(&format!("cases_planned_under/{fl}"), total / n + u64::from(k < total % n));
        let mut case = k;
        while case < total {
            run_case(check, w, &ctx, case, &mut acc);
            case += n;
            if case % 16 == 0 && start.elapsed().as_secs() > wd {
                acc.watchdog_stopped = true;
                acc.note(&format!("watchdog stopped workload {} at case {case}/{total}", w.name));
                break 'outer;
            }
        }
    }
    acc
}

#[derive(Serialize, Deserialize)]
pub struct ReplayFile {
    pub property: String,
    pub workload: String,
    pub case: u64,
    pub seed: u64,
    pub tier: String,
    pub flavour: String,
    pub rule: String,
    pub msg: String,
    pub trace: Vec<String>,
}

pub fn verif_dir() -> std::path::PathBuf {
    std::env::var("VERIF_DIR").map(Into::into).unwrap_or_else(|_| "/verif".into())
}

/// Known findings: `finding: property=<id> sig=<sig> <text>`
fn known_findings() -> Vec<(String, String, String)> {
    let p = verif_dir().join("known_findings.txt");
    let Ok(s) = std::fs::read_to_string(p) else { return vec![] };
    let mut out = vec![];
    for l in s.lines() {
        let l = l.trim();
        if let Some(rest) = l.strip_prefix("finding:") {
            let mut prop = None;
            let mut sig = None;
            let mut text = vec![];
            for tok in rest.split_whitespace() {
                if let Some(p) = tok.strip_prefix("property=") {
                    prop = Some(p.to_string());
                } else if let Some(s) = tok.strip_prefix("sig=") {
                    sig = Some(s.to_string());
                } else {
                    text.push(tok);
                }
            }
            if let (Some(p), Some(s)) = (prop, sig) {
                out.push((p, s, text.join(" ")));
            }
        }
    }
    out
}

/// Parent: spawn shards (checked and, where needed, plain binaries), merge,
/// write evidence and replays, print verdict lines, return exit code.
pub fn run_parent(check: &Check, tier: Tier) -> i32 {
    let start = Instant::now();
    let seed = seed_from_env();
    let nsh: u64 = std::env::var("VERIF_SHARDS").ok().and_then(|s| s.parse().ok()).unwrap_or(16);
    let me = std::env::current_exe().expect("current_exe");
    let plain = std::env::var("FV_PLAIN").ok();
    let mut bins: Vec<(String, std::path::PathBuf)> = vec![];
    if check.workloads.iter().any(|w| w.flav != Flav::Plain) {
        bins.push(("checked".into(), me.clone()));
    }
    if check.workloads.iter().any(|w| w.flav != Flav::Checked) {
        match plain {
            Some(p) => bins.push(("plain".into(), p.into())),
            None => {
                eprintln!("FV_PLAIN not set: plain-flavour workloads cannot run");
                return 2;
            }
        }
    }
    let mut children: Vec<(String, u64, std::process::Child)> = vec![];
    for (fl, bin) in &bins {
        for k in 0..nsh {
            let child = std::process::Command::new(bin)
                .args(["shard", check.id, tier.name(), &k.to_string(), &nsh.to_string()])
                .env("VERIF_SEED", seed.to_string())
                .stdout(std::process::Stdio::piped())
                .stderr(std::process::Stdio::piped())
                .spawn()
                .expect("spawn shard");
            children.push((fl.clone(), k, child));
        }
    }
    // sanitizer shards (thorough tier, or FV_SANITIZERS=1)
    let want_san = (tier == Tier::Thorough || std::env::var("FV_SANITIZERS").is_ok()) && SANITIZER_PLAN.iter().any(|p| p.0 == check.id);
    let mut san_notes = vec![];
    if want_san {
        match std::env::var("FV_ASAN") {
            Ok(bin) if std::path::Path::new(&bin).exists() => {
                bins.push(("asan".into(), bin.clone().into()));
                for k in 0..nsh {
                    let child = std::process::Command::new(&bin)
                        .args(["shard", check.id, tier.name(), &k.to_string(), &nsh.to_string()])
                        .env("VERIF_SEED", seed.to_string())
                        .env("FV_FLAVOUR", "asan")
                        .env("ASAN_OPTIONS", "detect_leaks=0:halt_on_error=1:abort_on_error=0:exitcode=97")
                        .stdout(std::process::Stdio::piped())
                        .stderr(std::process::Stdio::piped())
                        .spawn()
                        .expect("spawn asan shard");
                    children.push(("asan".into(), k, child));
                }
            }
            _ => san_notes.push("AddressSanitizer build not available: asan shards skipped".to_string()),
        }
        match std::env::var("FV_MIRI_DIR") {
            Ok(dir) => {
                bins.push(("miri".into(), "cargo +nightly miri run".into()));
                for k in 0..nsh {
                    let child = std::process::Command::new("cargo")
                        .args(["+nightly", "miri", "run", "-q", "--offline", "--manifest-path"])
                        .arg(format!("{dir}/Cargo.toml"))
                        .args(["--", "shard", check.id, tier.name(), &k.to_string(), &nsh.to_string()])
                        .env("VERIF_SEED", seed.to_string())
                        .env("MIRIFLAGS", "-Zmiri-disable-isolation")
                        .env("CARGO_TARGET_DIR", format!("{dir}/target/miri"))
                        .stdout(std::process::Stdio::piped())
                        .stderr(std::process::Stdio::piped())
                        .spawn()
                        .expect("spawn miri shard");
                    children.push(("miri".into(), k, child));
                }
            }
            _ => san_notes.push("Miri not prepared: miri shards skipped".to_string()),
        }
    }
    let mut acc = Acc::default();
    for n in &san_notes {
        acc.note(n);
    }
    let mut harness_errors = vec![];
    for (fl, k, child) in children {
        let out = child.wait_with_output().expect("wait shard");
        let stdout = String::from_utf8_lossy(&out.stdout);
        let mut got = false;
        for line in stdout.lines() {
            if let Some(js) = line.strip_prefix("SHARD-RESULT ") {
                match serde_json::from_str::<Acc>(js) {
                    Ok(a) => {
                        acc.merge(a);
                        got = true;
                    }
                    Err(e) => harness_errors.push(format!("shard {fl}/{k}: bad result json: {e}")),
                }
            }
        }
        if !got {
            let err = String::from_utf8_lossy(&out.stderr);
            // a sanitizer report kills the shard: that is a violation of the check that ran it
            if let Some(l) = err.lines().find(|l| l.contains("ERROR: AddressSanitizer") || l.contains("Undefined Behavior") || l.contains("error: unsupported operation") && fl == "miri") {
                let ctx: Vec<String> = err.lines().skip_while(|x| *x != l).take(14).map(|x| x.to_string()).collect();
                acc.viols.push(Viol {
                    property: check.id.to_string(),
                    rule: format!("{}/sanitizer-report-{fl}", check.id),
                    sig: format!("{}/sanitizer-report-{fl}", check.id),
                    msg: l.trim().to_string(),
                    workload: "sanitizer-shard".into(),
                    case: k,
                    seed,
                    tier: tier.name().into(),
                    flavour: fl.clone(),
                    trace: ctx,
                });
                continue;
            }
            let tail: String = err.lines().rev().take(12).collect::<Vec<_>>().into_iter().rev().collect::<Vec<_>>().join("\n");
            // A shard that died is examined by the check (C06 maps foca-originated aborts to violations itself,
            // from inside the shard); here it is a harness-level failure.
            harness_errors.push(format!("shard {fl}/{k} produced no result (status {:?}):\n{tail}", out.status));
        }
    }

    // verdict over the whole run (rates)
    if let Some(agg) = check.aggregate {
        if let Some(v) = agg(&acc) {
            acc.flagged.sort();
            let (workload, case) = acc.flagged.first().cloned().unwrap_or(("aggregate".into(), 0));
            acc.viols.push(Viol {
                property: check.id.to_string(),
                sig: v.rule.clone(),
                rule: v.rule,
                msg: v.msg,
                workload,
                case,
                seed,
                tier: tier.name().into(),
                flavour: "checked".into(),
                trace: acc.notes.iter().cloned().collect(),
            });
        }
    }
    // verdicts
    let known = known_findings();
    let mut new_viols: Vec<&Viol> = vec![];
    let mut known_hits: BTreeMap<(String, String), (String, u64)> = BTreeMap::new();
    for v in &acc.viols {
        if let Some((_, _, text)) = known.iter().find(|(p, s, _)| *p == v.property && *s == v.sig) {
            let e = known_hits.entry((v.property.clone(), v.sig.clone())).or_insert((text.clone(), 0));
            e.1 += 1;
        } else {
            new_viols.push(v);
        }
    }
    let vdir = verif_dir();
    let _ = std::fs::create_dir_all(vdir.join("replays"));
    let _ = std::fs::create_dir_all(vdir.join("evidence"));
    let mut printed = BTreeSet::new();
    let mut replay_paths = vec![];
    for v in &new_viols {
        let name = format!(
            "{}-{}-{}-s{}-c{}.json",
            v.property,
            v.workload,
            v.flavour,
            v.seed,
            v.case
        );
        let path = vdir.join("replays").join(name);
        let rf = ReplayFile {
            property: v.property.clone(),
            workload: v.workload.clone(),
            case: v.case,
            seed: v.seed,
            tier: v.tier.clone(),
            flavour: v.flavour.clone(),
            rule: v.rule.clone(),
            msg: v.msg.clone(),
            trace: v.trace.clone(),
        };
        if let Ok(mut fh) = std::fs::File::create(&path) {
            let _ = fh.write_all(serde_json::to_string_pretty(&rf).unwrap().as_bytes());
        }
        if printed.insert(path.clone()) && printed.len() <= 12 {
            println!("  rule {} [{}/{} case {}]: {}", v.rule, v.workload, v.flavour, v.case, v.msg);
            println!("VIOLATION property={} replay={}", v.property, path.display());
        }
        replay_paths.push(path.display().to_string());
    }
    for ((p, s), (text, n)) in &known_hits {
        println!("KNOWN-FINDING: property={p} sig={s} {text} ({n} witnesses this run)");
    }

    // observed-nothing guard
    let mut missing = vec![];
    for r in check.required {
        if acc.tallies.get(*r).copied().unwrap_or(0) == 0 {
            missing.push(*r);
        }
    }
    let distinct = acc.fps.len() as u64;
    let wall = start.elapsed().as_secs_f64();
    let ev = json!({
        "property_id": check.id,
        "tier": tier.name(),
        "seed": seed,
        "level": check.level,
        "coverage": {
            "evaluations": acc.evaluations,
            "distinct_nontrivial": distinct,
            "distinct_nontrivial_note": if acc.fps_overflow > 0 { format!("fingerprint set capped; {} further non-trivial cases not de-duplicated and not counted", acc.fps_overflow) } else { "exact".to_string() },
            "rule": check.rule,
            "samples": acc.samples,
            "exhaustive": check.exhaustive && !acc.watchdog_stopped,
            "exhaustive_parts": acc.exhaustive_parts,
            "inconclusive_cases": acc.inconclusive,
            "cases_per_workload": acc.per_workload,
            "observed": acc.tallies,
            "maxima": acc.maxima,
            "flavours": bins.iter().map(|b| b.0.clone()).collect::<Vec<_>>(),
            "notes": acc.notes,
            "watchdog_stopped": acc.watchdog_stopped,
            "known_findings_seen": known_hits.iter().map(|((p, s), (_, n))| format!("{p} {s} x{n}")).collect::<Vec<_>>(),
            "replays": replay_paths,
        },
        "assumptions": check.assumptions,
        "wall_s": wall,
        "violations": new_viols.len(),
    });
    let evpath = vdir.join("evidence").join(format!("{}.json", check.id));
    std::fs::write(&evpath, serde_json::to_string_pretty(&ev).unwrap()).expect("write evidence");

    println!(
        "{} {} seed={} cases={} distinct_nontrivial={} inconclusive={} violations={} known={} wall={:.1}s",
        check.id,
        tier.name(),
        seed,
        acc.evaluations,
        distinct,
        acc.inconclusive,
        new_viols.len(),
        known_hits.len(),
        wall
    );
    for (k, v) in &acc.maxima {
        println!("  max {k} = {v}");
    }
    if !new_viols.is_empty() {
        return 1;
    }
    if !harness_errors.is_empty() {
        for e in &harness_errors {
            eprintln!("HARNESS-ERROR {e}");
        }
        return 2;
    }
    if !missing.is_empty() || distinct < 2 {
        eprintln!("INCONCLUSIVE: the run observed nothing of kind {missing:?} (distinct_nontrivial={distinct})");
        return 2;
    }
    0
}

pub fn replay(check: &Check, rf: &ReplayFile, path: &str) -> i32 {
    crate::node::install_panic_hook();
    let Some(w) = check.workloads.iter().find(|w| w.name == rf.workload) else {
        eprintln!("unknown workload {}", rf.workload);
        return 2;
    };
    if rf.flavour != flavour() {
        eprintln!("note: recorded under flavour {}, replaying under {}", rf.flavour, flavour());
    }
    let tier = Tier::parse(&rf.tier).unwrap_or(Tier::Quick);
    let ctx = Ctx { seed: rf.seed, tier, property: check.id };
    set_tracing(true);
    let mut acc = Acc::default();
    let r = (w.f)(&ctx, rf.case, &mut acc);
    let tr = take_trace();
    set_tracing(false);
    for l in &tr {
        println!("{l}");
    }
    match r {
        Err(v) => {
            println!("rule {}: {}", v.rule, v.msg);
            println!("VIOLATION property={} replay={}", check.id, path);
            1
        }
        Ok(()) => {
            println!("case held on this tree");
            0
        }
    }
}
