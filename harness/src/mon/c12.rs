//! C12 — a probe succeeds only on genuine evidence; indirect probing is
//! routed correctly. Shadow of the probe round built from boundary events.
use crate::codecs::CodecKind;
use crate::ensure;
use crate::ids::Id;
use crate::mon::basic::Conn;
use crate::mon::presented::Presented;
use crate::node::{CallRec, Op, Res, EK};
use crate::run::{Acc, Verdict};
use crate::wire;
use foca::{Message, OwnedNotification as N, State, Timer};
use std::time::Duration;

#[derive(Clone, Debug)]
struct Round {
    target: Id,
    nr: u8,
    inc_pinged: u16,
    token: u8,
    asked: Vec<Id>,
    answered: Vec<Id>,
    direct_ack: bool,
    indirect_stage: bool,
    aborted: bool,
}

#[derive(Default)]
pub struct C12 {
    round: Option<Round>,
    pub check_hook: bool,
}

fn reply_kinds(m: &Message<Id>) -> bool {
    matches!(
        m,
        Message::Ack(_) | Message::IndirectPing { .. } | Message::IndirectAck { .. } | Message::ForwardedAck { .. } | Message::Feed
    )
}

impl C12 {
    pub fn new() -> Self {
        C12 { round: None, check_hook: true }
    }

    pub fn on(
        &mut self,
        rec: &CallRec,
        pres: &Presented,
        conn_pre: Conn,
        conn_post: Conn,
        epoch_pre: Option<u8>,
        codec: CodecKind,
        acc: &mut Acc,
    ) -> Verdict {
        if rec.res.is_panic() {
            return Ok(());
        }
        let me = rec.pre.id;
        let disrupted = rec.notes().any(|n| matches!(n, N::Idle | N::Defunct | N::Rejoin(_)))
            || matches!((&rec.op, &rec.res), (Op::ChangeId(_), r) if *r != Res::Err(EK::SameIdentity))
            || matches!((&rec.op, &rec.res), (Op::Reuse, Res::Ok));
        let parsed_sends: Vec<(Id, Message<Id>)> = rec
            .sends()
            .filter_map(|(to, d)| wire::decode_header(codec, d).ok().map(|(h, _)| (*to, h.message)))
            .collect();

        match &rec.op {
            // ------------------------------------------------ the prober's timers
            Op::Timer(Timer::ProbeRandomMember(tok)) if conn_pre == Conn::Active && epoch_pre == Some(*tok) => {
                // verdict on the round that just ended
                let judged = matches!(&self.round, Some(r) if !r.aborted && r.token == *tok);
                if let Some(r) = self.round.take() {
                    let evidence = r.direct_ack || !r.answered.is_empty();
                    let target_pre = rec.pre.rec_for_addr(r.target.addr).filter(|m| *m.id() == r.target);
                    let timers: Vec<_> = rec
                        .scheds()
                        .filter(|(t, _)| matches!(t, Timer::ChangeSuspectToDown { member_id, .. } if *member_id == r.target))
                        .collect();
                    if !r.aborted && r.token == *tok {
                        if evidence {
                            acc.tally("rounds_with_evidence", 1);
                            ensure!(timers.is_empty(), "C12/suspected-despite-evidence", "probe {} of {:?} was answered (direct {}, helpers {:?}) but a suspicion timeout was scheduled", r.nr, r.target, r.direct_ack, r.answered);
                            let became_suspect = target_pre.is_some_and(|m| m.state() == State::Alive)
                                && rec.post.rec_for_addr(r.target.addr).is_some_and(|m| *m.id() == r.target && m.state() == State::Suspect);
                            ensure!(!became_suspect, "C12/suspected-despite-evidence", "probe {} of {:?} was answered but the member became Suspect", r.nr, r.target);
                        } else if r.indirect_stage {
                            acc.tally("rounds_without_evidence", 1);
                            if let Some(tp) = target_pre {
                                if tp.state() != State::Down && tp.incarnation() <= r.inc_pinged {
                                    let post = rec.post.rec_for_addr(r.target.addr);
                                    // the member may be the last one: then the instance is idle but the record must still be Suspect
                                    ensure!(
                                        post.is_some_and(|m| *m.id() == r.target && m.state() == State::Suspect),
                                        "C12/unanswered-probe-not-suspected",
                                        "probe {} of {:?} got no evidence but the member is {post:?}",
                                        r.nr,
                                        r.target
                                    );
                                    ensure!(
                                        timers.len() == 1
                                            && *timers[0].0 == Timer::ChangeSuspectToDown { member_id: r.target, incarnation: r.inc_pinged, token: *tok }
                                            && *timers[0].1 == Duration::from_micros(rec.cfg_pre.s2d),
                                        "C12/suspicion-timer",
                                        "unanswered probe of {:?}@{} scheduled {:?}",
                                        r.target,
                                        r.inc_pinged,
                                        timers
                                    );
                                    acc.tally("suspicions_raised", 1);
                                }
                            }
                        }
                    } else {
                        acc.tally("rounds_aborted", 1);
                    }
                }
                // a round that was aborted (Idle, Defunct, identity change) or that never existed in this epoch
                // cannot conclude anything: the probe timer that follows must not suspect anybody
                if !judged {
                    let s2d: Vec<_> = rec.scheds().filter(|(t, _)| matches!(t, Timer::ChangeSuspectToDown { .. })).collect();
                    ensure!(
                        s2d.is_empty(),
                        "C12/suspicion-without-a-round",
                        "first probe timer after the round was aborted / of a new epoch scheduled {:?}: there is no completed round to judge",
                        s2d
                    );
                    for m in &rec.post.state {
                        if m.state() == State::Suspect {
                            let was = rec.pre.rec_for_addr(m.id().addr);
                            ensure!(
                                !was.is_some_and(|o| o.id() == m.id() && o.state() == State::Alive),
                                "C12/suspicion-without-a-round",
                                "first probe timer after the round was aborted / of a new epoch turned {:?} Suspect",
                                m.id()
                            );
                        }
                    }
                    acc.tally("probe_timers_with_no_round_to_judge", 1);
                }
                // the new round
                let pings: Vec<_> = parsed_sends.iter().filter_map(|(to, m)| if let Message::Ping(n) = m { Some((*to, *n)) } else { None }).collect();
                if let Some((t, n)) = pings.first() {
                    let inc = rec.post.rec_for_addr(t.addr).filter(|m| m.id() == t).map(|m| m.incarnation()).unwrap_or(0);
                    self.round = Some(Round {
                        target: *t,
                        nr: *n,
                        inc_pinged: inc,
                        token: *tok,
                        asked: vec![],
                        answered: vec![],
                        direct_ack: false,
                        indirect_stage: false,
                        aborted: false,
                    });
                    acc.tally("rounds_started", 1);
                }
            }
            Op::Timer(Timer::SendIndirectProbe { probed_id, token }) if conn_pre == Conn::Active && epoch_pre == Some(*token) => {
                let reqs: Vec<(Id, Id, u8)> = parsed_sends
                    .iter()
                    .filter_map(|(to, m)| if let Message::PingReq { target, probe_number } = m { Some((*to, *target, *probe_number)) } else { None })
                    .collect();
                ensure!(reqs.len() == parsed_sends.len(), "C12/indirect-stage-other-datagrams", "indirect stage sent {:?}", parsed_sends);
                match &mut self.round {
                    Some(r) if r.target == *probed_id && !r.aborted => {
                        r.indirect_stage = true;
                        if r.direct_ack {
                            ensure!(reqs.is_empty(), "C12/pingreq-after-ack", "Ack({}) from {:?} arrived within probe_rtt but PingReq were sent", r.nr, r.target);
                        }
                        let target_active = rec.pre.is_active(&r.target);
                        if !target_active {
                            ensure!(reqs.is_empty(), "C12/pingreq-for-inactive-target", "target {:?} no longer active but PingReq sent", r.target);
                        }
                        ensure!(reqs.len() <= rec.cfg_pre.k, "C12/pingreq-fanout", "{} PingReq with num_indirect_probes {}", reqs.len(), rec.cfg_pre.k);
                        for (i, (to, target, nr)) in reqs.iter().enumerate() {
                            ensure!(*target == r.target && *nr == r.nr, "C12/pingreq-content", "PingReq names {target:?}/{nr}, round is {:?}/{}", r.target, r.nr);
                            ensure!(*to != r.target, "C12/pingreq-to-target", "PingReq sent to the target {to:?}");
                            ensure!(to.addr != me.addr, "C12/pingreq-to-self", "PingReq sent to own address");
                            ensure!(rec.pre.is_active(to), "C12/pingreq-to-inactive", "PingReq sent to {to:?} which is not active");
                            ensure!(!reqs[..i].iter().any(|x| x.0 == *to), "C12/pingreq-duplicate", "PingReq sent twice to {to:?}");
                            r.asked.push(*to);
                        }
                        acc.tally("pingreqs_sent", reqs.len() as u64);
                        if !r.direct_ack && target_active {
                            let others = rec.pre.active.iter().filter(|x| **x != r.target).count();
                            if reqs.len() < others.min(rec.cfg_pre.k) {
                                acc.tally("indirect_stage_asked_fewer_than_possible", 1);
                            }
                        }
                    }
                    _ => {
                        // timer for a round that is no longer current
                        ensure!(reqs.is_empty(), "C12/pingreq-outside-round", "PingReq sent for {:?} which is not the current probe target", probed_id);
                    }
                }
            }
            // ------------------------------------------------ datagrams
            Op::Data(_) => {
                if let Presented::Data { view, processed } = pres {
                    let connected = conn_pre == Conn::Active && conn_post == Conn::Active && !disrupted;
                    let src = view.header.src;
                    // evidence for the prober
                    if *processed && connected {
                        if let Some(r) = &mut self.round {
                            match &view.header.message {
                                Message::Ack(n) if src == r.target && *n == r.nr => {
                                    r.direct_ack = true;
                                    acc.tally("direct_acks_accepted", 1);
                                }
                                Message::ForwardedAck { origin, probe_number } if *probe_number == r.nr && *origin != me => {
                                    if let Some(p) = r.asked.iter().position(|x| *x == src) {
                                        r.asked.swap_remove(p);
                                        r.answered.push(src);
                                        acc.tally("forwarded_acks_accepted", 1);
                                    } else {
                                        acc.tally("forwarded_acks_from_unasked", 1);
                                    }
                                }
                                Message::Ack(_) | Message::ForwardedAck { .. } => acc.tally("acks_not_matching_round", 1),
                                _ => {}
                            }
                        }
                    }
                    // responder rules
                    let replies: Vec<&(Id, Message<Id>)> = parsed_sends.iter().filter(|(_, m)| reply_kinds(m)).collect();
                    if !*processed || !connected {
                        if !disrupted && conn_pre != Conn::Active && conn_post != Conn::Active {
                            ensure!(replies.is_empty(), "C12/reply-while-not-connected", "instance not connected replied {:?}", replies);
                        }
                        if !*processed {
                            ensure!(replies.is_empty(), "C12/reply-to-inactive-sender", "replied {:?} to inactive sender {src:?}", replies);
                        }
                    } else if rec.res == Res::Ok || matches!(rec.res, Res::Err(EK::CustomBroadcast | EK::MalformedPacket | EK::IndirectForOurselves)) {
                        let expect: Option<(Id, Message<Id>)> = match &view.header.message {
                            Message::Ping(x) => Some((src, Message::Ack(*x))),
                            Message::PingReq { target, probe_number } if *target != me => {
                                Some((*target, Message::IndirectPing { origin: src, probe_number: *probe_number }))
                            }
                            Message::IndirectPing { origin, probe_number } if *origin != me => {
                                Some((src, Message::IndirectAck { target: *origin, probe_number: *probe_number }))
                            }
                            Message::IndirectAck { target, probe_number } if *target != me => {
                                Some((*target, Message::ForwardedAck { origin: src, probe_number: *probe_number }))
                            }
                            Message::Announce => Some((src, Message::Feed)),
                            _ => None,
                        };
                        let named_self = matches!(&view.header.message,
                            Message::PingReq { target: x, .. } | Message::IndirectPing { origin: x, .. } | Message::IndirectAck { target: x, .. } | Message::ForwardedAck { origin: x, .. } if *x == me);
                        if named_self {
                            ensure!(rec.res == Res::Err(EK::IndirectForOurselves), "C12/indirect-for-ourselves-accepted", "{:?} naming the instance itself returned {:?}", view.header.message, rec.res);
                            ensure!(replies.is_empty(), "C12/indirect-for-ourselves-accepted", "{:?} naming the instance itself was answered with {:?}", view.header.message, replies);
                            acc.tally("indirect_for_ourselves_rejected", 1);
                        } else {
                            match expect {
                                Some(e) => {
                                    ensure!(
                                        replies.len() == 1 && *replies[0] == e,
                                        "C12/wrong-reply",
                                        "{:?} from {src:?} must be answered with {:?}, got {:?}",
                                        view.header.message,
                                        e,
                                        replies
                                    );
                                    acc.tally(&format!("replies_checked/{}", wire::kind_name(&view.header.message)), 1);
                                }
                                None => ensure!(replies.is_empty(), "C12/unexpected-reply", "{:?} answered with {:?}", view.header.message, replies),
                            }
                        }
                    }
                } else {
                    // rejected datagram: nothing may be sent in response
                    let replies: Vec<_> = parsed_sends.iter().filter(|(_, m)| reply_kinds(m)).collect();
                    ensure!(replies.is_empty(), "C12/reply-to-rejected-datagram", "rejected datagram answered with {:?}", replies);
                }
            }
            _ => {}
        }
        if disrupted {
            if let Some(r) = &mut self.round {
                r.aborted = true;
            }
            if conn_post != Conn::Active {
                self.round = None;
            }
        }
        // Pings are only ever sent by the probe timer
        if !matches!(rec.op, Op::Timer(Timer::ProbeRandomMember(_))) {
            ensure!(!parsed_sends.iter().any(|(_, m)| matches!(m, Message::Ping(_))), "C12/ping-outside-probe-timer", "Ping sent by {}", rec.op.name());
        }
        // hook cross-check of the evidence shadow
        if self.check_hook && conn_post == Conn::Active {
            if let Some(r) = &self.round {
                if !r.aborted {
                    let s = &rec.post.snap;
                    if s.probe_target.as_ref().map(|m| *m.id()) == Some(r.target) && s.probe_number == r.nr {
                        ensure!(
                            s.probe_direct_ack_ok == r.direct_ack && s.probe_indirect_acks == r.answered.len(),
                            "C12/evidence-mismatch",
                            "instance counts direct_ack={} indirect_acks={} for probe {} of {:?}; the datagrams it accepted justify direct_ack={} indirect_acks={}",
                            s.probe_direct_ack_ok,
                            s.probe_indirect_acks,
                            r.nr,
                            r.target,
                            r.direct_ack,
                            r.answered.len()
                        );
                    }
                }
            }
        }

        Ok(())
    }
}
