//! C15 / C16 — dissemination accounting by lock-step replay.
//!
//! The shadow knows everything presented to the instance and replays it
//! through the C01 join model on a shadow membership to decide, update by
//! update, what is accepted for broadcast, while walking the call's datagrams
//! in order (self-directed updates trigger gossip in the middle of a call).
//! Every piggybacking datagram is then accounted against the shadow backlog.
use crate::bcast::{parse_item, HdlCfg};
use crate::codecs::CodecKind;
use crate::ensure;
use crate::ids::{renewed_ok, Id};
use crate::model::lattice::{MRec, MView, Outcome};
use crate::mon::basic::Conn;
use crate::mon::presented::Presented;
use crate::node::{CallRec, Op, Res, EK};
use crate::run::{Acc, Verdict, V};
use crate::wire::{self, kind_name, Parsed};
use foca::{Member, Message, State, Timer};
use std::collections::VecDeque;

#[derive(Clone, Debug, PartialEq, Eq)]
pub struct UEntry {
    pub addr: u16,
    pub bytes: Vec<u8>,
    pub remaining: usize,
}

#[derive(Clone, Debug, PartialEq, Eq)]
pub struct CEntry {
    pub key: (u8, u8),
    pub bytes: Vec<u8>,
    pub remaining: usize,
}

enum Act {
    /// update accepted for broadcast
    Enq(Member<Id>),
    /// `n` gossip datagrams are sent at this point
    Gossip(usize),
    /// custom items of the incoming datagram are handed to the handler here
    Custom,
}

pub struct Acct {
    pub view: MView,
    pub ub: Vec<UEntry>,
    pub cb: Vec<CEntry>,
    cur: Id,
    inc: u16,
    conn: Conn,
    synced: bool,
    codec: CodecKind,
    pub arm15: bool,
    pub arm16: bool,
}

fn down0(id: Id) -> Member<Id> {
    Member::new(id, 0, State::Down)
}

impl Acct {
    pub fn new(codec: CodecKind, arm15: bool, arm16: bool) -> Self {
        Acct {
            view: MView::default(),
            ub: vec![],
            cb: vec![],
            cur: Id::new(0, 0),
            inc: 0,
            conn: Conn::Idle,
            synced: false,
            codec,
            arm15,
            arm16,
        }
    }

    fn resync(&mut self, rec: &CallRec) {
        self.view = MView::from_members(rec.post.state.iter());
        self.ub = rec
            .post
            .snap
            .updates_backlog
            .iter()
            .map(|(r, b)| UEntry {
                addr: wire::decode_member(self.codec, b).map(|(m, _)| m.id().addr).unwrap_or(u16::MAX),
                bytes: b.clone(),
                remaining: *r,
            })
            .collect();
        self.cb = rec
            .post
            .snap
            .custom_backlog
            .iter()
            .map(|(r, b)| {
                let (_, k, v) = parse_item(b).unwrap_or((0, 0, 0));
                CEntry { key: (k, v), bytes: b.clone(), remaining: *r }
            })
            .collect();
        self.cur = rec.post.id;
        self.inc = rec.post.snap.incarnation;
        self.conn = match rec.post.snap.connection_state {
            1 => Conn::Active,
            2 => Conn::Defunct,
            _ => Conn::Idle,
        };
        self.synced = true;
    }

    fn enqueue(&mut self, m: &Member<Id>, tx: u8, codec: CodecKind) {
        let addr = m.id().addr;
        self.ub.retain(|e| e.addr != addr);
        self.ub.push(UEntry { addr, bytes: wire::encode_member(codec, m), remaining: tx as usize });
    }

    /// apply a (non-self) update to the shadow membership; returns whether it is accepted
    fn apply(&mut self, m: &Member<Id>, existing_only: bool) -> bool {
        if existing_only && !self.view.0.contains_key(&m.id().addr) {
            return false;
        }
        !matches!(self.view.apply(MRec::of(m)), Outcome::Stale)
    }

    fn death(&mut self, acts: &mut Vec<Act>, k: usize) {
        match renewed_ok(&self.cur) {
            Some(n) => {
                let prev = self.cur;
                let prev_dead = self.conn == Conn::Defunct;
                self.cur = n;
                self.inc = 0;
                self.conn = Conn::Idle;
                if !prev_dead {
                    acts.push(Act::Enq(down0(prev)));
                }
                acts.push(Act::Gossip(k.min(self.view.num_active())));
            }
            None => self.conn = Conn::Defunct,
        }
    }

    fn step_update(&mut self, u: &Member<Id>, bcast: bool, acts: &mut Vec<Act>, k: usize) {
        if *u.id() == self.cur {
            match u.state() {
                State::Alive => {}
                State::Suspect if self.conn == Conn::Defunct => {}
                State::Suspect => {
                    let m = u.incarnation().max(self.inc);
                    if m == u16::MAX {
                        self.death(acts, k);
                    } else {
                        if u.incarnation() >= self.inc {
                            self.inc = m + 1;
                        }
                        acts.push(Act::Gossip(k.min(self.view.num_active())));
                    }
                }
                State::Down => self.death(acts, k),
            }
        } else if u.id().addr == self.cur.addr {
            let d = down0(*u.id());
            if self.apply(&d, false) && bcast {
                acts.push(Act::Enq(d));
            }
        } else if self.apply(u, false) && bcast {
            acts.push(Act::Enq(u.clone()));
        }
    }

    fn adjust_conn(&mut self) {
        match self.conn {
            Conn::Idle if self.view.num_active() > 0 => self.conn = Conn::Active,
            Conn::Active if self.view.num_active() == 0 => self.conn = Conn::Idle,
            _ => {}
        }
    }

    /// Account one outgoing datagram against the shadow backlogs.
    fn account(&mut self, to: &Id, p: &Parsed, mps: usize, hcfg: &HdlCfg, acc: &mut Acc) -> Verdict {
        let kind = kind_name(&p.header.message);
        // ---- membership updates (C15)
        if wire::piggybacks(&p.header.message) && p.header.message != Message::Feed {
            if let Some(ms) = &p.members {
                let mut used: Vec<u16> = vec![];
                let mut min_rem_included = usize::MAX;
                let mut included: Vec<(usize, usize)> = vec![]; // (remaining before, len)
                for (m, bytes) in ms.iter().zip(p.member_bytes.iter()) {
                    let addr = m.id().addr;
                    if self.arm15 {
                        ensure!(!used.contains(&addr), "C15/address-twice-in-datagram", "{kind} carries two updates for address {addr}");
                    }
                    used.push(addr);
                    let Some(pos) = self.ub.iter().position(|e| e.addr == addr) else {
                        return self.v15("C15/update-not-pending", format!("{kind} to {to:?} carries {m:?} but no update for that address is pending (exhausted, superseded or never accepted)"));
                    };
                    if self.ub[pos].bytes != *bytes {
                        return self.v15(
                            "C15/stale-update-gossiped",
                            format!("{kind} carries {m:?} but the most recently accepted update for that address is {:?}", wire::decode_member(self.codec, &self.ub[pos].bytes).ok().map(|x| x.0)),
                        );
                    }
                    let rem = self.ub[pos].remaining;
                    if rem == 0 {
                        return self.v15("C15/over-transmitted", format!("{m:?} gossiped after its transmissions were spent"));
                    }
                    min_rem_included = min_rem_included.min(rem);
                    included.push((rem, bytes.len()));
                    self.ub[pos].remaining -= 1;
                    acc.tally("updates_piggybacked", 1);
                }
                let space = mps.saturating_sub(p.members_end);
                if self.arm15 {
                    for e in &self.ub {
                        if used.contains(&e.addr) {
                            continue;
                        }
                        ensure!(
                            e.bytes.len() > space,
                            "C15/omitted-update-that-fits",
                            "{kind} omits a pending update of {} bytes (remaining {}) although {space} bytes were left after the update section",
                            e.bytes.len(),
                            e.remaining
                        );
                        for (rem, len) in &included {
                            if e.remaining > *rem {
                                ensure!(
                                    e.bytes.len() > *len,
                                    "C15/precedence",
                                    "{kind} carries an update with {rem} transmissions left ({len} bytes) but omits one with {} left ({} bytes)",
                                    e.remaining,
                                    e.bytes.len()
                                );
                            }
                        }
                        acc.tally("updates_omitted_for_space", 1);
                    }
                }
                self.ub.retain(|e| e.remaining > 0);
                acc.tally("piggybacking_datagrams_accounted", 1);
            } else if self.arm15 {
                // no member section at all: only legal when nothing could fit
                for e in &self.ub {
                    ensure!(mps.saturating_sub(p.header_len) <= 2 || e.bytes.len() + 2 > mps - p.header_len, "C15/omitted-update-that-fits", "{kind} has no update section although a pending update fits");
                }
            }
        } else {
            acc.tally("non_consuming_datagrams", 1);
        }
        // ---- custom broadcasts (C16)
        let allowed = wire::may_carry_custom(&p.header.message) && hcfg.allows(to);
        if !p.items.is_empty() {
            if !wire::may_carry_custom(&p.header.message) {
                return self.v16("C16/items-on-forbidden-kind", format!("{kind} carries custom broadcast items"));
            }
            if !hcfg.allows(to) {
                return self.v16("C16/items-to-excluded-member", format!("{kind} to {to:?} carries custom items although should_add_broadcast_data is false for it"));
            }
        }
        let mut included: Vec<(usize, usize)> = vec![];
        let mut used_idx: Vec<usize> = vec![];
        for it in &p.items {
            let Some(pos) = self.cb.iter().position(|e| e.bytes == *it) else {
                return self.v16("C16/unknown-or-invalidated-item", format!("{kind} carries item {} which is not pending (invalidated, exhausted, never accepted, or altered)", crate::util::hex(&it[..it.len().min(16)])));
            };
            if self.arm16 {
                ensure!(!used_idx.contains(&pos), "C16/item-twice-in-datagram", "{kind} carries the same item twice");
            }
            used_idx.push(pos);
            let rem = self.cb[pos].remaining;
            if rem == 0 {
                return self.v16("C16/over-transmitted", "item sent after its transmissions were spent".to_string());
            }
            included.push((rem, it.len()));
            self.cb[pos].remaining -= 1;
            acc.tally("custom_items_sent", 1);
        }
        // Not part of the statement of C16 (unlike C15 for membership updates): whether an item that
        // would still fit is always included. Observed and tallied only. (After a partially written
        // Feed member is rolled back, foca under-reports the space left, so fitting items can be omitted.)
        if allowed && p.len < mps && (p.members.is_some() || !wire::piggybacks(&p.header.message)) {
            let space = mps - p.len;
            for (i, e) in self.cb.iter().enumerate() {
                if !used_idx.contains(&i) && e.bytes.len() + 2 <= space {
                    acc.tally("custom_items_omitted_although_fitting_not_judged", 1);
                }
            }
        }
        let _ = &included;
        self.cb.retain(|e| e.remaining > 0);
        Ok(())
    }

    fn v15(&self, rule: &str, msg: String) -> Verdict {
        if self.arm15 {
            Err(V::new(rule, msg))
        } else {
            Err(V::new("desync", msg))
        }
    }
    fn v16(&self, rule: &str, msg: String) -> Verdict {
        if self.arm16 {
            Err(V::new(rule, msg))
        } else {
            Err(V::new("desync", msg))
        }
    }

    fn custom_recv(&mut self, rec: &CallRec, hcfg: &HdlCfg) {
        let tx = rec.cfg_pre.tx as usize;
        for e in &rec.hlog {
            if e.accepted == Some(true) {
                if let Some((_, k, v)) = parse_item(&e.data) {
                    self.cb.retain(|old| !hcfg.invalidates((k, v), old.key));
                    self.cb.push(CEntry { key: (k, v), bytes: e.data.clone(), remaining: tx });
                }
            }
        }
    }

    pub fn on(&mut self, rec: &CallRec, pres: &Presented, codec: CodecKind, hcfg: &HdlCfg, acc: &mut Acc) -> Verdict {
        if rec.res.is_panic() {
            self.synced = false;
            return Ok(());
        }
        if !self.synced {
            self.resync(rec);
            return Ok(());
        }
        let reliable = match &rec.res {
            Res::Ok | Res::Bool(_) => true,
            Res::Err(EK::CustomBroadcast | EK::MalformedPacket | EK::IndirectForOurselves) => matches!(pres, Presented::Data { .. }) || matches!(rec.op, Op::AddBroadcast(_)),
            Res::Err(EK::NotUndead | EK::SameIdentity | EK::InvalidConfig | EK::DataTooBig) => true,
            Res::Err(EK::IncompleteProbeCycle) => true,
            Res::Err(EK::DataFromOurselves | EK::Decode) => true,
            _ => false,
        };
        if !reliable {
            acc.tally("acct_resync_after_error", 1);
            self.resync(rec);
            return Ok(());
        }
        if self.arm16 {
            self.receiver_side(rec, pres, acc)?;
        }
        let r = self.walk(rec, pres, codec, hcfg, acc);
        match r {
            Ok(()) => Ok(()),
            Err(v) if v.rule == "desync" => {
                acc.tally("acct_desync", 1);
                crate::run::trace(|| format!("   (backlog shadow desync: {})", v.msg));
                self.resync(rec);
                Ok(())
            }
            Err(v) => {
                self.resync(rec);
                Err(v)
            }
        }
    }

    /// The receiving handler sees exactly the items sent, in order, once each,
    /// with the sender's identity.
    fn receiver_side(&self, rec: &CallRec, pres: &Presented, acc: &mut Acc) -> Verdict {
        let (Op::Data(d), Presented::Data { view, processed: true }) = (&rec.op, pres) else { return Ok(()) };
        // items of the tail, by the grammar
        let mut items: Vec<&[u8]> = vec![];
        let mut p = view.tail_at;
        let mut well_formed = true;
        while p < d.len() {
            if d.len() - p < 3 {
                well_formed = false;
                break;
            }
            let l = ((d[p] as usize) << 8) | d[p + 1] as usize;
            p += 2;
            if l == 0 || d.len() - p < l {
                well_formed = false;
                break;
            }
            items.push(&d[p..p + l]);
            p += l;
        }
        let n = rec.hlog.len();
        ensure!(n <= items.len(), "C16/handler-saw-extra-items", "handler received {n} items, the datagram carries {}", items.len());
        for (i, e) in rec.hlog.iter().enumerate() {
            ensure!(e.data == items[i], "C16/handler-item-altered", "handler item {i} differs from the bytes sent");
            ensure!(e.sender == Some(view.header.src), "C16/handler-wrong-sender", "handler item {i} attributed to {:?}, sent by {:?}", e.sender, view.header.src);
        }
        let stopped_by_handler = rec.hlog.last().is_some_and(|e| e.accepted.is_none());
        if well_formed && !stopped_by_handler {
            ensure!(n == items.len(), "C16/handler-missed-items", "datagram carries {} items, handler received {n}", items.len());
        }
        acc.tally("custom_items_received", n as u64);
        Ok(())
    }

    fn walk(&mut self, rec: &CallRec, pres: &Presented, codec: CodecKind, hcfg: &HdlCfg, acc: &mut Acc) -> Verdict {
        let cfg = &rec.cfg_pre;
        let k = cfg.k;
        let tx = cfg.tx;
        let mps = cfg.mps;
        let token = rec.pre.snap.timer_token;
        let mut acts: Vec<Act> = vec![];
        let cb_before = self.cb.len();

        match (&rec.op, pres) {
            (Op::Apply(us, b), _) => {
                for u in us {
                    self.step_update(u, *b, &mut acts, k);
                }
                self.adjust_conn();
            }
            (Op::Data(_), Presented::Rejected(_)) => {}
            (Op::Data(_), Presented::Data { view, processed }) => {
                let h = &view.header;
                let hm = Member::new(h.src, h.src_incarnation, State::Alive);
                if self.apply(&hm, false) {
                    acts.push(Act::Enq(hm));
                }
                if !*processed {
                    if h.message == Message::TurnUndead {
                        self.death(&mut acts, k);
                        // a renewed instance goes back online right away if it knows active members
                        self.adjust_conn();
                    }
                } else {
                    for u in &view.members {
                        self.step_update(u, true, &mut acts, k);
                    }
                    self.adjust_conn();
                    acts.push(Act::Custom);
                    if self.conn == Conn::Active && h.message == Message::TurnUndead {
                        self.death(&mut acts, k);
                        self.adjust_conn();
                    }
                }
            }
            (Op::Timer(t), _) => match t {
                Timer::ProbeRandomMember(tok) if *tok == token && self.conn == Conn::Active => {
                    let s = &rec.pre.snap;
                    if let Some(target) = &s.probe_target {
                        let ok = s.probe_direct_ack_ok || s.probe_indirect_acks > 0;
                        if !ok && s.probe_reached_indirect_stage {
                            let sus = Member::new(*target.id(), target.incarnation(), State::Suspect);
                            if self.apply(&sus, true) {
                                acts.push(Act::Enq(sus));
                            }
                        }
                    }
                }
                Timer::ChangeSuspectToDown { member_id, incarnation, token: tok } if *tok == token => {
                    let cur = self.view.0.get(&member_id.addr).copied();
                    if let Some(c) = cur {
                        let lost = c.id != *member_id && crate::mon::presented::wins(&c.id, member_id);
                        if !lost && c.inc == *incarnation {
                            let d = Member::new(*member_id, *incarnation, State::Down);
                            if self.apply(&d, true) {
                                acts.push(Act::Enq(d));
                            }
                            self.adjust_conn();
                        }
                    }
                }
                Timer::RemoveDown(id) => {
                    if self.view.0.get(&id.addr).is_some_and(|r| r.id == *id && r.st == State::Down) {
                        self.view.0.remove(&id.addr);
                    }
                }
                _ => {}
            },
            (Op::Leave, _) => {
                acts.push(Act::Enq(down0(self.cur)));
                acts.push(Act::Gossip(k.min(self.view.num_active())));
                self.conn = Conn::Defunct;
            }
            (Op::ChangeId(n), _) => {
                if rec.res != Res::Err(EK::SameIdentity) {
                    let prev = self.cur;
                    let prev_dead = self.conn == Conn::Defunct;
                    self.cur = *n;
                    self.inc = 0;
                    self.conn = Conn::Idle;
                    if !prev_dead {
                        acts.push(Act::Enq(down0(prev)));
                    }
                }
            }
            (Op::Reuse, _) => {
                if rec.res == Res::Ok {
                    self.conn = Conn::Idle;
                    self.inc = 0;
                }
            }
            (Op::AddBroadcast(_), _) => acts.push(Act::Custom),
            _ => {}
        }

        // walk the datagrams of the call in order
        let mut sends: VecDeque<(Id, Result<Parsed, String>)> =
            rec.sends().map(|(to, d)| (*to, wire::parse(codec, d))).collect();
        for a in acts {
            match a {
                Act::Enq(m) => {
                    self.enqueue(&m, tx, codec);
                    acc.tally("updates_accepted_for_broadcast", 1);
                }
                Act::Custom => self.custom_recv(rec, hcfg),
                Act::Gossip(n) => {
                    for _ in 0..n {
                        let Some((to, p)) = sends.pop_front() else {
                            return Err(V::new("desync", "expected a gossip datagram, none left"));
                        };
                        let p = p.map_err(|e| V::new("desync", e))?;
                        if p.header.message != Message::Gossip {
                            return Err(V::new("desync", format!("expected Gossip, found {}", kind_name(&p.header.message))));
                        }
                        self.account(&to, &p, mps, hcfg, acc)?;
                    }
                }
            }
        }
        // broadcast(): op-level rules
        if let Op::Broadcast = rec.op {
            self.check_broadcast(rec, &sends, k, hcfg, acc)?;
        }
        while let Some((to, p)) = sends.pop_front() {
            let p = match p {
                Ok(p) => p,
                // header and member section parse but the custom-broadcast tail does not consist of whole items
                Err(e) if self.arm16 && e.starts_with("tail:") => {
                    return Err(V::new("C16/tail-not-whole-items", format!("datagram to {to:?}: {e}")));
                }
                // the datagram cannot be taken apart at all, yet the instance spent a transmission of a custom item
                // in this call: the item went out in a form no receiver can hand to its handler
                Err(e) if self.arm16 && custom_transmission_spent(rec) => {
                    return Err(V::new(
                        "C16/item-in-unparsable-datagram",
                        format!("datagram to {to:?} does not parse ({e}) and a pending custom item lost a transmission in this call (backlog {:?} -> {:?})", brief(&rec.pre.snap.custom_backlog), brief(&rec.post.snap.custom_backlog)),
                    ));
                }
                Err(e) => return Err(V::new("desync", e)),
            };
            self.account(&to, &p, mps, hcfg, acc)?;
        }

        // ---- compare shadows with the instance
        let real = MView::from_members(rec.post.state.iter());
        if real.view() != self.view.view() {
            return Err(V::new("desync", format!("shadow membership {:?} vs real {:?}", self.view.view(), real.view())));
        }
        if self.arm15 {
            ensure!(
                rec.post.ub == self.ub.len(),
                "C15/backlog-size",
                "updates_backlog() is {} but the accepted/transmitted history leaves {} pending updates",
                rec.post.ub,
                self.ub.len()
            );
            let mut a: Vec<(usize, Vec<u8>)> = self.ub.iter().map(|e| (e.remaining, e.bytes.clone())).collect();
            let mut b = rec.post.snap.updates_backlog.clone();
            a.sort();
            b.sort();
            ensure!(
                a == b,
                "C15/backlog-contents",
                "pending updates (remaining, bytes) differ: history says {:?}, instance holds {:?}",
                a.iter().map(|(r, x)| (*r, crate::util::hex(x))).collect::<Vec<_>>(),
                b.iter().map(|(r, x)| (*r, crate::util::hex(x))).collect::<Vec<_>>()
            );
            if let Op::Apply(us, false) = &rec.op {
                if us.iter().all(|u| u.id().addr != rec.pre.id.addr) {
                    ensure!(rec.pre.ub == rec.post.ub && {
                        let mut x = rec.pre.snap.updates_backlog.clone();
                        x.sort();
                        x == b
                    }, "C15/no-broadcast-apply-touched-backlog", "apply_many(.., do_broadcast=false) changed the backlog");
                    acc.tally("no_broadcast_applies_checked", 1);
                }
            }
        }
        if self.arm16 {
            ensure!(
                rec.post.cb == self.cb.len(),
                "C16/backlog-size",
                "custom_broadcast_backlog() is {} but the accepted/invalidated/transmitted history leaves {} items (had {cb_before})",
                rec.post.cb,
                self.cb.len()
            );
            let mut a: Vec<(usize, Vec<u8>)> = self.cb.iter().map(|e| (e.remaining, e.bytes.clone())).collect();
            let mut b = rec.post.snap.custom_backlog.clone();
            a.sort();
            b.sort();
            ensure!(a == b, "C16/backlog-contents", "pending custom items differ: history says {} entries {:?}, instance holds {:?}", a.len(),
                a.iter().map(|(r, x)| (*r, crate::util::hex(&x[..x.len().min(8)]))).collect::<Vec<_>>(),
                b.iter().map(|(r, x)| (*r, crate::util::hex(&x[..x.len().min(8)]))).collect::<Vec<_>>());
        } else {
            // keep the custom shadow honest even when not armed
            let mut a: Vec<(usize, Vec<u8>)> = self.cb.iter().map(|e| (e.remaining, e.bytes.clone())).collect();
            let mut b = rec.post.snap.custom_backlog.clone();
            a.sort();
            b.sort();
            if a != b {
                return Err(V::new("desync", "custom backlog shadow differs"));
            }
        }
        if !self.arm15 {
            let mut a: Vec<(usize, Vec<u8>)> = self.ub.iter().map(|e| (e.remaining, e.bytes.clone())).collect();
            let mut b = rec.post.snap.updates_backlog.clone();
            a.sort();
            b.sort();
            if a != b {
                return Err(V::new("desync", "updates backlog shadow differs"));
            }
        }
        Ok(())
    }

    fn check_broadcast(&self, rec: &CallRec, sends: &VecDeque<(Id, Result<Parsed, String>)>, k: usize, hcfg: &HdlCfg, acc: &mut Acc) -> Verdict {
        if !self.arm16 {
            return Ok(());
        }
        acc.tally("broadcast_calls", 1);
        if self.cb.is_empty() {
            ensure!(sends.is_empty(), "C16/broadcast-with-empty-backlog", "broadcast() sent {} datagrams with nothing pending", sends.len());
            return Ok(());
        }
        ensure!(sends.len() <= k, "C16/broadcast-fanout", "broadcast() sent {} datagrams, num_indirect_probes is {k}", sends.len());
        let eligible = rec.pre.active.iter().filter(|m| hcfg.allows(m)).count();
        let mut pending: Vec<CEntry> = self.cb.clone();
        let mut seen: Vec<Id> = vec![];
        for (i, (to, p)) in sends.iter().enumerate() {
            let Ok(p) = p else { continue };
            ensure!(p.header.message == Message::Broadcast, "C16/broadcast-other-kind", "broadcast() sent a {}", kind_name(&p.header.message));
            ensure!(p.members.is_none(), "C16/broadcast-with-updates", "Broadcast datagram carries member updates");
            ensure!(rec.pre.is_active(to) && hcfg.allows(to), "C16/broadcast-ineligible-destination", "Broadcast sent to {to:?} (active {}, eligible {})", rec.pre.is_active(to), hcfg.allows(to));
            ensure!(!seen.contains(to), "C16/broadcast-duplicate-destination", "Broadcast sent twice to {to:?}");
            seen.push(*to);
            ensure!(!pending.is_empty(), "C16/broadcast-after-drain", "datagram {i} of broadcast() was sent after the backlog had been drained");
            for it in &p.items {
                if let Some(pos) = pending.iter().position(|e| e.bytes == *it) {
                    pending[pos].remaining -= 1;
                }
            }
            pending.retain(|e| e.remaining > 0);
        }
        if !pending.is_empty() {
            ensure!(sends.len() == eligible.min(k), "C16/broadcast-too-few", "broadcast() sent {} datagrams; {} eligible members, fan-out {k}, items still pending", sends.len(), eligible);
        }
        Ok(())
    }
}


fn brief(b: &[(usize, Vec<u8>)]) -> Vec<(usize, String)> {
    b.iter().map(|(r, d)| (*r, crate::util::hex(&d[..d.len().min(8)]))).collect()
}

/// Did some pending custom item lose a transmission during this call (hook snapshot before/after)?
fn custom_transmission_spent(rec: &CallRec) -> bool {
    let post = &rec.post.snap.custom_backlog;
    rec.pre.snap.custom_backlog.iter().any(|(rem, bytes)| match post.iter().find(|(_, b)| b == bytes) {
        Some((rem2, _)) => rem2 < rem,
        None => *rem == 1,
    })
}
