//! C10 — incarnation discipline, self-refutation, reaction to one's own death.
use crate::codecs::CodecKind;
use crate::ensure;
use crate::ids::Id;
use crate::mon::basic::Conn;
use crate::mon::chain::Chain;
use crate::mon::presented::{FoldOut, Presented, SelfEvent};
use crate::node::{CallRec, Ev, Op, Res, EK};
use crate::run::{Acc, Verdict};
use crate::wire::{self, kind_name};
use foca::{Member, Message, OwnedNotification as N, State};
use std::collections::HashMap;

pub struct C10 {
    /// shadow of the instance's own incarnation for the identity in use
    pub inc: u16,
    pub defunct: bool,
    /// highest incarnation ever presented to the instance per identity
    told: HashMap<Id, u16>,
    /// last header incarnation seen per identity epoch (monotonicity across calls)
    last_sent: Option<(Id, u16)>,
    /// every address this instance has ever used (its old identities may still be gossiped as Down)
    own_addrs: Vec<u16>,
    pub check_hook: bool,
}

impl Default for C10 {
    fn default() -> Self {
        C10 { inc: 0, defunct: false, told: HashMap::new(), last_sent: None, own_addrs: vec![], check_hook: true }
    }
}

impl C10 {
    fn tell(&mut self, id: Id, inc: u16) {
        let e = self.told.entry(id).or_insert(inc);
        if inc > *e {
            *e = inc;
        }
    }

    pub fn start_inc(&self, rec: &CallRec) -> u16 {
        match (&rec.op, &rec.res) {
            (Op::ChangeId(_), Res::Err(EK::SameIdentity)) => self.inc,
            (Op::ChangeId(_), _) => 0,
            (Op::Reuse, Res::Ok) => 0,
            _ => self.inc,
        }
    }

    pub fn on(
        &mut self,
        rec: &CallRec,
        ch: &Chain,
        pres: &Presented,
        fo: Option<&FoldOut>,
        conn_pre: Conn,
        codec: CodecKind,
        acc: &mut Acc,
    ) -> Verdict {
        // what the instance is told in this call (superset: also payloads it discards)
        match (&rec.op, pres) {
            (Op::Apply(us, _), _) => {
                for u in us {
                    self.tell(*u.id(), u.incarnation());
                }
            }
            (Op::Data(d), _) => {
                if let Ok((h, hl)) = wire::decode_header(codec, d) {
                    self.tell(h.src, h.src_incarnation);
                    if d.len() >= hl + 2 && h.message != Message::Broadcast {
                        let n = ((d[hl] as usize) << 8) | d[hl + 1] as usize;
                        let mut p = hl + 2;
                        for _ in 0..n {
                            match wire::decode_member(codec, &d[p..]) {
                                Ok((m, l)) => {
                                    self.tell(*m.id(), m.incarnation());
                                    p += l;
                                }
                                Err(_) => break,
                            }
                        }
                    }
                }
            }
            _ => {}
        }
        // explicit resets
        match (&rec.op, &rec.res) {
            (Op::ChangeId(_), Res::Err(EK::SameIdentity)) => {}
            (Op::ChangeId(_), _) => {
                self.inc = 0;
                self.defunct = false;
                self.last_sent = None;
            }
            (Op::Reuse, Res::Ok) => {
                self.inc = 0;
                self.defunct = false;
                self.last_sent = None;
            }
            _ => {}
        }
        if rec.res.is_panic() {
            return Ok(());
        }
        for a in [rec.pre.id.addr, crate::mon::chain::start_identity(rec).addr, rec.post.id.addr] {
            if !self.own_addrs.contains(&a) {
                self.own_addrs.push(a);
            }
        }

        // defunct instances never answer / probe / relay
        let mut defunct_now = self.defunct;
        for (i, ev) in rec.evs.iter().enumerate() {
            match ev {
                Ev::Notify(N::Defunct) => defunct_now = true,
                Ev::Notify(N::Rejoin(_)) => defunct_now = false,
                Ev::Send { to, .. } => {
                    if defunct_now {
                        if let Some(Ok(p)) = &ch.parsed[i] {
                            let bad = matches!(
                                p.header.message,
                                Message::Ping(_)
                                    | Message::Ack(_)
                                    | Message::PingReq { .. }
                                    | Message::IndirectPing { .. }
                                    | Message::IndirectAck { .. }
                                    | Message::ForwardedAck { .. }
                                    | Message::Feed
                            );
                            ensure!(
                                !bad,
                                "C10/active-under-dead-identity",
                                "defunct instance {:?} sent {} to {to:?}",
                                ch.at[i],
                                kind_name(&p.header.message)
                            );
                        }
                    }
                }
                _ => {}
            }
        }
        self.defunct = defunct_now;

        // header incarnations: monotone per identity epoch, and explained by the fold
        for (i, ev) in rec.evs.iter().enumerate() {
            let Ev::Send { .. } = ev else { continue };
            let Some(Ok(p)) = &ch.parsed[i] else { continue };
            let (id, h) = (ch.at[i], p.header.src_incarnation);
            acc.tally("headers_checked", 1);
            if let Some((lid, linc)) = self.last_sent {
                if lid == id {
                    ensure!(h >= linc, "C10/incarnation-decreased", "{id:?} sent incarnation {h} after {linc}");
                }
            }
            self.last_sent = Some((id, h));
            if let Some(fo) = fo {
                if let Some(j) = fo.fold.ids.iter().position(|x| *x == id) {
                    ensure!(
                        fo.fold.incs[j].contains(&h),
                        "C10/incarnation-unexplained",
                        "{} from {id:?} carries incarnation {h}; the suspicions presented explain only {:?} (events {:?})",
                        kind_name(&p.header.message),
                        fo.fold.incs[j],
                        fo.fold.events
                    );
                }
                // replies are produced after all updates were handled: they carry the final value
                let reply = matches!(
                    p.header.message,
                    Message::Ack(_) | Message::IndirectPing { .. } | Message::IndirectAck { .. } | Message::ForwardedAck { .. } | Message::Feed
                );
                if reply && matches!(rec.op, Op::Data(_)) && id == fo.fold.id {
                    ensure!(
                        h == fo.fold.inc,
                        "C10/stale-incarnation-after-refutation",
                        "{} sent after handling the suspicion carries incarnation {h}, expected {}",
                        kind_name(&p.header.message),
                        fo.fold.inc
                    );
                }
            }
        }

        match fo {
            Some(fo) => {
                let f = &fo.fold;
                ensure!(
                    ch.ids == f.ids,
                    "C10/renewal-mismatch",
                    "identities used in the call {:?} but the updates presented call for {:?} (events {:?})",
                    ch.ids,
                    f.ids,
                    f.events
                );
                if fo.tu_due {
                    ensure!(fo.tu_acted, "C10/ignored-own-death", "TurnUndead received while connected but neither Rejoin nor Defunct followed");
                }
                for e in &f.events {
                    match e {
                        SelfEvent::Refuted { .. } => acc.tally("suspicions_refuted", 1),
                        SelfEvent::StaleSuspicion { .. } => acc.tally("stale_suspicions", 1),
                        SelfEvent::Defunct { .. } => acc.tally("deaths_defunct", 1),
                        SelfEvent::Renewed { old, new } => {
                            acc.tally("deaths_renewed", 1);
                            ensure!(rec.has_note(&N::Rejoin(*new)), "C10/rejoin-missing", "renewed {old:?} -> {new:?} without Rejoin({new:?})");
                        }
                    }
                }
                // the old identity is gossiped as Down (unless it was already known to be down)
                let mut prev_dead = conn_pre == Conn::Defunct;
                for e in &f.events {
                    match e {
                        SelfEvent::Renewed { old, new } => {
                            if !prev_dead {
                                let want = wire::encode_member(codec, &Member::new(*old, 0, State::Down));
                                // first piggybacking datagram under the new identity in this call
                                let first = rec.evs.iter().enumerate().find_map(|(i, ev)| match (ev, &ch.parsed[i]) {
                                    (Ev::Send { .. }, Some(Ok(p))) if ch.at[i] == *new && wire::piggybacks(&p.header.message) && p.header.message != Message::Feed => Some(p),
                                    _ => None,
                                });
                                if let Some(p) = first {
                                    // (a later update about another identity of the own address, presented in the same
                                    // call, legitimately supersedes the entry: one update per address)
                                    let has = p.members.as_ref().is_some_and(|ms| ms.iter().any(|m| m.id().addr == old.addr && m.state() == State::Down));
                                    let room = rec.cfg_pre.mps.saturating_sub(p.members_end) >= want.len() && p.members.is_some();
                                    if room {
                                        ensure!(has, "C10/old-identity-not-gossiped-down", "first datagram as {new:?} does not carry Down({old:?}) although {} bytes were free", rec.cfg_pre.mps - p.members_end);
                                    }
                                    if has {
                                        acc.tally("old_identity_gossiped_down", 1);
                                    }
                                }
                            }
                            prev_dead = false;
                        }
                        SelfEvent::Defunct { .. } => prev_dead = true,
                        _ => {}
                    }
                }
                self.inc = f.inc;
                if f.ids.len() > 1 {
                    // new epoch
                    if self.last_sent.is_some_and(|(l, _)| l != f.id) {
                        self.last_sent = None;
                    }
                }
                if self.check_hook {
                    ensure!(
                        rec.post.snap.incarnation == self.inc,
                        "C10/incarnation-vs-suspicions",
                        "own incarnation is {} but the suspicions presented so far call for {} (events {:?})",
                        rec.post.snap.incarnation,
                        self.inc,
                        f.events
                    );
                }
            }
            None => {
                // the call failed half-way: resynchronise the shadow (boundary would do it at the next datagram)
                self.inc = rec.post.snap.incarnation;
                self.last_sent = None;
                acc.tally("c10_resync_after_error", 1);
            }
        }

        // never gossips an incarnation it was not told
        for (i, ev) in rec.evs.iter().enumerate() {
            let Ev::Send { .. } = ev else { continue };
            let Some(Ok(p)) = &ch.parsed[i] else { continue };
            for m in p.members.as_deref().unwrap_or(&[]) {
                if self.own_addrs.contains(&m.id().addr) && (m.id().addr == ch.at[i].addr || m.state() == State::Down) {
                    // own (previous) identities: only ever as Down
                    if *m.id() != ch.at[i] {
                        ensure!(m.state() == State::Down, "C10/own-old-identity-not-down", "gossips own address identity {m:?}");
                    }
                    continue;
                }
                acc.tally("outgoing_updates_checked", 1);
                match self.told.get(m.id()) {
                    Some(t) => ensure!(
                        m.incarnation() <= *t,
                        "C10/invented-incarnation",
                        "tells others {m:?} but was never told more than incarnation {t} for that identity"
                    ),
                    None => {
                        return Err(crate::run::V::new("C10/invented-member", format!("tells others {m:?} but was never told about that identity")))
                    }
                }
            }
        }
        Ok(())
    }
}
