//! C13 — timer epochs: recurring loops are never lost, duplicated or
//! resurrected. Requires a driver that hands each scheduled timer back exactly
//! once (the workload tells the monitor which timers it delivered).
use crate::ensure;
use crate::ids::Id;
use crate::mon::basic::Conn;
use crate::node::{CallRec, Op, Res, EK};
use crate::run::{Acc, Verdict};
use foca::{OwnedNotification as N, Timer};

pub fn token_of(t: &Timer<Id>) -> Option<u8> {
    match t {
        Timer::ProbeRandomMember(k) | Timer::PeriodicAnnounce(k) | Timer::PeriodicAnnounceDown(k) | Timer::PeriodicGossip(k) => Some(*k),
        Timer::SendIndirectProbe { token, .. } | Timer::ChangeSuspectToDown { token, .. } => Some(*token),
        Timer::RemoveDown(_) => None,
    }
}

pub struct C13 {
    /// timers submitted and not yet handed back
    pub out: Vec<Timer<Id>>,
    /// token of the current active epoch (None while not active)
    pub epoch: Option<u8>,
    /// periodic tasks enabled when the epoch began: (announce, announce_down, gossip)
    pub armed: (bool, bool, bool),
    /// true when the driver delivers in deadline order (then no error at all is admissible)
    pub in_order: bool,
    /// an IncompleteProbeCycle was returned: the next probe timer must ping again
    pending_recovery: bool,
    pub check_hook: bool,
}

impl C13 {
    pub fn new(in_order: bool) -> Self {
        C13 { out: vec![], epoch: None, armed: (false, false, false), in_order, pending_recovery: false, check_hook: true }
    }

    fn count(&self, t: &Timer<Id>) -> usize {
        self.out.iter().filter(|x| *x == t).count()
    }

    /// `conn_post`: C08-B automaton state after this call.
    pub fn on(&mut self, rec: &CallRec, conn_pre: Conn, conn_post: Conn, acc: &mut Acc) -> Verdict {
        let mut delivered: Option<Timer<Id>> = None;
        if let Op::Timer(t) = &rec.op {
            if let Some(pos) = self.out.iter().position(|x| x == t) {
                self.out.swap_remove(pos);
                delivered = Some(t.clone());
                acc.tally("timers_delivered", 1);
            }
        }
        let epoch_pre = self.epoch;
        // stale timers: no effect whatsoever
        if let Some(t) = &delivered {
            if let Some(tok) = token_of(t) {
                let stale = conn_pre != Conn::Active || epoch_pre != Some(tok);
                if stale {
                    acc.tally("stale_timers_delivered", 1);
                    ensure!(rec.res == Res::Ok, "C13/stale-timer-error", "stale timer {t:?} returned {:?}", rec.res);
                    ensure!(rec.evs.is_empty(), "C13/stale-timer-effect", "stale timer {t:?} (epoch {epoch_pre:?}, {conn_pre:?}) emitted {:?}", rec.evs);
                    ensure!(rec.pre == rec.post, "C13/stale-timer-effect", "stale timer {t:?} changed the instance state");
                }
            }
        }
        // errors from timers
        if let (Op::Timer(t), Res::Err(e)) = (&rec.op, &rec.res) {
            if delivered.is_some() {
                // Encode errors come from packets too small for a header: the driver's choice, not a timer fault
                if *e != EK::Encode {
                    ensure!(!self.in_order, "C13/error-with-in-order-delivery", "handle_timer({t:?}) returned {e:?} although timers are delivered in deadline order");
                    ensure!(*e == EK::IncompleteProbeCycle, "C13/unexpected-timer-error", "handle_timer({t:?}) returned {e:?}");
                    acc.tally("incomplete_probe_cycles", 1);
                }
            }
        }
        if rec.res.is_panic() {
            return Ok(());
        }
        // new timers
        for (t, _) in rec.scheds() {
            self.out.push(t.clone());
            acc.tally("timers_scheduled", 1);
        }
        // epoch tracking from notifications
        let mut became_active = false;
        for n in rec.notes() {
            match n {
                N::Active => became_active = true,
                N::Idle | N::Defunct | N::Rejoin(_) => {
                    became_active = false;
                    self.epoch = None;
                }
                _ => {}
            }
        }
        match (&rec.op, &rec.res) {
            (Op::ChangeId(_), Res::Err(EK::SameIdentity)) => {}
            (Op::ChangeId(_), _) | (Op::Reuse, Res::Ok) => {
                if !became_active {
                    self.epoch = None;
                }
            }
            _ => {}
        }
        if became_active {
            // the epoch token is the one on the probe timer submitted in this call
            let tok = rec.scheds().filter_map(|(t, _)| if let Timer::ProbeRandomMember(k) = t { Some(*k) } else { None }).last();
            ensure!(tok.is_some(), "C13/active-without-probe-timer", "Active notified but no probe timer was scheduled in that call");
            self.epoch = tok;
            self.armed = (rec.cfg_pre.pa.is_some(), rec.cfg_pre.pad.is_some(), rec.cfg_pre.pg.is_some());
            acc.tally("epochs_started", 1);
        }
        if conn_post == Conn::Active {
            let Some(tok) = self.epoch else {
                return Err(crate::run::V::new("C13/active-without-epoch", "instance is active but no epoch start was observed"));
            };
            if self.check_hook {
                ensure!(rec.post.snap.timer_token == tok, "C13/epoch-token", "epoch token inferred {tok} but instance holds {}", rec.post.snap.timer_token);
            }
            let c = self.count(&Timer::ProbeRandomMember(tok));
            ensure!(c == 1, "C13/probe-timer-count", "{c} outstanding probe timers for the current epoch {tok} after {} (outstanding: {:?})", rec.op.name(), self.out);
            let cfg = &rec.cfg_post;
            for (armed, now, t, name) in [
                (self.armed.0, cfg.pa.is_some(), Timer::PeriodicAnnounce(tok), "announce"),
                (self.armed.1, cfg.pad.is_some(), Timer::PeriodicAnnounceDown(tok), "announce-to-down"),
                (self.armed.2, cfg.pg.is_some(), Timer::PeriodicGossip(tok), "gossip"),
            ] {
                let c = self.count(&t);
                if now {
                    // enabled now: whether it was when the epoch began, or set_config accepted enabling it since (which
                    // the crate documents as unsupported and refuses - if it ever accepts, the loop must exist)
                    ensure!(c == 1, "C13/periodic-timer-count", "{c} outstanding periodic {name} timers for epoch {tok} although the task is enabled (enabled when the epoch began: {armed}; outstanding: {:?})", self.out);
                } else if armed {
                    ensure!(c <= 1, "C13/periodic-timer-count", "{c} outstanding periodic {name} timers after the task was switched off");
                } else {
                    ensure!(c == 0, "C13/periodic-timer-count", "{c} periodic {name} timers although the task was not enabled when the epoch began");
                }
            }
            acc.tally("active_states_checked", 1);
        }
        // recovery after IncompleteProbeCycle: the call itself already probes again
        if let (Op::Timer(Timer::ProbeRandomMember(_)), Res::Err(EK::IncompleteProbeCycle)) = (&rec.op, &rec.res) {
            self.pending_recovery = true;
            let pings = rec.sends().count();
            ensure!(pings >= 1 || rec.post.num_members == 0, "C13/no-probe-after-recovery", "IncompleteProbeCycle returned and no Ping was sent");
        } else if let (Op::Timer(Timer::ProbeRandomMember(_)), true) = (&rec.op, delivered.is_some()) {
            if self.pending_recovery && conn_pre == Conn::Active && epoch_pre.is_some() && rec.res == Res::Ok {
                self.pending_recovery = false;
                acc.tally("recoveries_completed", 1);
            }
        }
        Ok(())
    }
}
