//! C11 — suspicion timeout takes effect iff unrefuted; Down is final until forgotten.
use crate::codecs::CodecKind;
use crate::ensure;
use crate::ids::Id;
use crate::node::{CallRec, Op, Res};
use crate::run::{Acc, Verdict};
use crate::wire;
use foca::{Identity, Member, Message, OwnedNotification as N, State, Timer};
use std::collections::BTreeSet;
use std::time::Duration;

#[derive(Default)]
pub struct C11 {
    /// identities seen Down and not yet forgotten
    down: BTreeSet<Id>,
    /// identities whose Down record was removed by their forget-timer
    forgotten: BTreeSet<Id>,
}

impl C11 {
    /// `epoch`: token of the active epoch before the call (None while not active),
    /// as inferred from notifications and scheduled timers by the C13 shadow.
    pub fn on(&mut self, rec: &CallRec, pres: &crate::mon::presented::Presented, epoch: Option<u8>, codec: CodecKind, acc: &mut Acc) -> Verdict {
        if rec.res.is_panic() {
            return Ok(());
        }
        // after its record was forgotten an identity may rejoin: the first processed update presenting it as
        // active, while nothing is recorded for its address, must bring it back
        {
            use crate::mon::presented::Presented as P;
            let ups: Vec<&Member<Id>> = match pres {
                P::Apply { updates, .. } => updates.iter().collect(),
                P::Data { view, processed: true } => view.members.iter().collect(),
                _ => vec![],
            };
            let hdr_addr = match pres {
                P::Data { view, .. } => Some(view.header.src.addr),
                _ => None,
            };
            if matches!(rec.res, Res::Ok) {
                if let Some(u) = ups.first() {
                    if self.forgotten.contains(u.id()) && hdr_addr != Some(u.id().addr) && u.state() != State::Down && u.id().addr != rec.pre.id.addr && rec.pre.rec_for_addr(u.id().addr).is_none() && ups.iter().filter(|x| x.id().addr == u.id().addr).count() == 1 {
                        let post = rec.post.rec_for_addr(u.id().addr);
                        ensure!(
                            post.is_some_and(|m| m.id() == u.id() && m.state() != State::Down),
                            "C11/forgotten-identity-cannot-rejoin",
                            "{:?} was forgotten by its forget-timer, then presented as {:?}, but the record is {post:?}",
                            u.id(),
                            u.state()
                        );
                        self.forgotten.remove(u.id());
                        acc.tally("rejoins_after_forget", 1);
                    }
                }
            }
        }
        if let Op::Timer(Timer::ChangeSuspectToDown { member_id: m, incarnation: i, token }) = &rec.op {
            let cur = rec.pre.rec_for_addr(m.addr);
            let fresh = epoch == Some(*token);
            let matches = cur.is_some_and(|r| r.id() == m && r.incarnation() == *i && r.state() != State::Down);
            // the one corner the statement leaves open: the address was forgotten and
            // re-learned under an older generation than the suspected identity
            let older_gen_corner = fresh
                && cur.is_some_and(|r| r.id() != m && m.win_addr_conflict(r.id()) && r.incarnation() == *i);
            if older_gen_corner {
                acc.tally("timeout_unjudged_older_generation_corner", 1);
            } else if fresh && matches {
                acc.tally("timeouts_effective", 1);
                ensure!(rec.res == Res::Ok || matches!(rec.res, Res::Err(crate::node::EK::Encode)), "C11/effective-timeout-error", "effective timeout returned {:?}", rec.res);
                let post = rec.post.rec_for_addr(m.addr);
                ensure!(
                    post.is_some_and(|r| r.id() == m && r.state() == State::Down),
                    "C11/timeout-not-applied",
                    "unrefuted suspicion of {m:?}@{i} timed out but the record is {post:?}"
                );
                let downs = rec.notes().filter(|n| **n == N::MemberDown(*m)).count();
                ensure!(downs == 1, "C11/memberdown-count", "{downs} MemberDown({m:?}) notifications for an effective timeout");
                let rd: Vec<_> = rec.scheds().filter(|(t, _)| **t == Timer::RemoveDown(*m)).collect();
                ensure!(
                    rd.len() == 1 && *rd[0].1 == Duration::from_micros(rec.cfg_pre.rda),
                    "C11/forget-timer",
                    "effective timeout scheduled {:?} (remove_down_after {}us)",
                    rd,
                    rec.cfg_pre.rda
                );
                let want = wire::encode_member(codec, &Member::new(*m, *i, State::Down));
                ensure!(
                    rec.post.snap.updates_backlog.iter().any(|(_, b)| *b == want),
                    "C11/down-not-queued-for-gossip",
                    "Down({m:?},{i}) is not in the dissemination backlog after the timeout"
                );
                let tus: Vec<_> = rec
                    .sends()
                    .filter(|(_, d)| matches!(wire::decode_header(codec, d), Ok((h, _)) if h.message == Message::TurnUndead))
                    .collect();
                if rec.res == Res::Ok {
                    if rec.cfg_pre.notify_down {
                        ensure!(tus.len() == 1 && tus[0].0 == m, "C11/turnundead-courtesy", "notify_down_members on: TurnUndead datagrams {:?}", tus.iter().map(|t| t.0).collect::<Vec<_>>());
                    } else {
                        ensure!(tus.is_empty(), "C11/turnundead-courtesy", "notify_down_members off but TurnUndead sent");
                    }
                }
            } else {
                acc.tally(if fresh { "timeouts_cancelled" } else { "timeouts_stale_epoch" }, 1);
                ensure!(rec.res == Res::Ok, "C11/cancelled-timeout-error", "cancelled/stale timeout returned {:?}", rec.res);
                ensure!(
                    rec.evs.is_empty(),
                    "C11/cancelled-timeout-effect",
                    "timeout for {m:?}@{i} (token {token}, epoch {epoch:?}) is cancelled or stale (record {cur:?}) but emitted {:?}",
                    rec.evs
                );
                ensure!(rec.pre == rec.post, "C11/cancelled-timeout-effect", "cancelled/stale timeout changed the instance state");
            }
        }
        // Down is final until forgotten
        let removed = match &rec.op {
            Op::Timer(Timer::RemoveDown(id)) => Some(*id),
            _ => None,
        };
        for id in self.down.clone() {
            match rec.post.rec_for_addr(id.addr) {
                Some(r) if *r.id() == id => {
                    ensure!(r.state() == State::Down, "C11/down-not-final", "{id:?} was Down and is now {r:?}");
                }
                Some(r) => {
                    ensure!(r.id().win_addr_conflict(&id), "C11/down-replaced-by-loser", "Down {id:?} replaced by {r:?}");
                    self.down.remove(&id);
                }
                None => {
                    ensure!(removed == Some(id), "C11/down-vanished", "Down record {id:?} disappeared without its forget-timer (op {})", rec.op.name());
                    self.down.remove(&id);
                    self.forgotten.insert(id);
                    acc.tally("down_records_forgotten", 1);
                }
            }
        }
        for m in &rec.post.state {
            if m.state() == State::Down {
                self.down.insert(*m.id());
            }
            // known again (by whatever route): no longer "forgotten"
            self.forgotten.remove(m.id());
        }
        // a forget-timer removes exactly its identity, and only when Down
        if let Some(id) = removed {
            for old in &rec.pre.state {
                if rec.post.rec_for_addr(old.id().addr).is_none() {
                    ensure!(*old.id() == id && old.state() == State::Down, "C11/forget-wrong-record", "RemoveDown({id:?}) removed {old:?}");
                }
            }
        }
        Ok(())
    }
}
