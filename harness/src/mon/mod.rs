pub mod backlog;
pub mod basic;
pub mod c10;
pub mod c11;
pub mod c12;
pub mod c13;
pub mod chain;
pub mod presented;

use crate::codecs::CodecKind;
use crate::node::{CallRec, Res, EK};
use crate::run::{Acc, Verdict};

/// Which monitors are armed (violations of the others are not this check's
/// business; their shadows still run because some monitors depend on them).
#[derive(Clone, Copy, Debug, Default)]
pub struct Arm {
    pub c07: bool,
    pub c08: bool,
    pub c09: bool,
    pub c10: bool,
    pub c11: bool,
    pub c12: bool,
    pub c13: bool,
    pub c15: bool,
    pub c16: bool,
    pub c19: bool,
}

impl Arm {
    pub fn only(id: &str) -> Arm {
        let mut a = Arm::default();
        match id {
            "C07" => a.c07 = true,
            "C08" => a.c08 = true,
            "C09" => a.c09 = true,
            "C10" => a.c10 = true,
            "C11" => a.c11 = true,
            "C12" => a.c12 = true,
            "C13" => a.c13 = true,
            "C15" => a.c15 = true,
            "C16" => a.c16 = true,
            "C19" => a.c19 = true,
            _ => {}
        }
        a
    }
}

/// Per-instance bundle of the boundary monitors.
pub struct Watch {
    pub codec: CodecKind,
    pub arm: Arm,
    pub c07: basic::C07,
    pub c08: basic::C08,
    pub c09: basic::C09,
    pub c10: c10::C10,
    pub c11: c11::C11,
    pub c12: c12::C12,
    pub c13: c13::C13,
    pub c19: basic::C19,
    pub acct: backlog::Acct,
    pub hcfg: crate::bcast::HdlCfg,
    /// a monitor other than the armed ones disagreed: its shadow can no longer be trusted
    pub shadow_broken: bool,
    pub unarmed: Vec<String>,
}

impl Watch {
    pub fn new(codec: CodecKind, arm: Arm, timers_in_order: bool, hcfg: crate::bcast::HdlCfg) -> Self {
        Watch {
            codec,
            arm,
            c07: Default::default(),
            c08: Default::default(),
            c09: Default::default(),
            c10: Default::default(),
            c11: Default::default(),
            c12: c12::C12::new(),
            c13: c13::C13::new(timers_in_order),
            c19: Default::default(),
            acct: backlog::Acct::new(codec, arm.c15, arm.c16),
            hcfg,
            shadow_broken: false,
            unarmed: vec![],
        }
    }

    fn gate(&mut self, armed: bool, v: Verdict) -> Verdict {
        match v {
            Ok(()) => Ok(()),
            Err(e) if armed => Err(e),
            Err(e) => {
                // not this check's property: remember that shadows may be off
                self.shadow_broken = true;
                self.unarmed.push(e.rule);
                Ok(())
            }
        }
    }

    pub fn observe(&mut self, rec: &CallRec, acc: &mut Acc) -> Verdict {
        if rec.res.is_panic() {
            acc.tally("panics_seen_by_non_C06_check", 1);
            return Ok(());
        }
        let codec = self.codec;
        let pres = presented::presented(rec, codec);
        let ch = match chain::chain(rec, codec) {
            Ok(c) => c,
            Err(e) => {
                return if self.arm.c07 {
                    Err(e)
                } else {
                    self.shadow_broken = true;
                    Ok(())
                }
            }
        };
        let conn_pre = {
            // the automaton state the call starts from (after silent user resets)
            use crate::node::Op;
            match (&rec.op, &rec.res) {
                (Op::ChangeId(_), Res::Err(EK::SameIdentity)) => self.c08.conn,
                (Op::ChangeId(_), _) | (Op::Reuse, Res::Ok) => basic::Conn::Idle,
                _ => self.c08.conn,
            }
        };
        // the fold is only reliable when the call ran to completion
        let reliable = match &rec.res {
            Res::Ok | Res::Bool(_) => true,
            // errors raised after all updates were applied
            Res::Err(EK::CustomBroadcast) | Res::Err(EK::MalformedPacket) | Res::Err(EK::IndirectForOurselves) => {
                matches!(pres, presented::Presented::Data { .. })
            }
            _ => false,
        };
        let fo = if reliable {
            Some(presented::self_fold(rec, &pres, chain::start_identity(rec), self.c10.start_inc(rec), conn_pre == basic::Conn::Active, conn_pre == basic::Conn::Defunct))
        } else {
            None
        };
        // every shadow runs on every call (some monitors depend on others'
        // shadows); only the armed monitors' verdicts count
        let mut scratch = Acc::default();
        macro_rules! run {
            ($armed:expr, $call:expr) => {{
                let armed = $armed;
                let v = if armed { let acc = &mut *acc; $call(acc) } else { let acc = &mut scratch; $call(acc) };
                self.gate(armed, v)?;
            }};
        }
        let epoch_pre = self.c13.epoch;
        run!(self.arm.c07, |a: &mut Acc| self.c07.on(rec, &ch, fo.as_ref(), a));
        run!(self.arm.c08, |a: &mut Acc| self.c08.on(rec, fo.as_ref(), a));
        let conn_post = self.c08.conn;
        run!(self.arm.c09, |a: &mut Acc| self.c09.on(rec, &pres, codec, a));
        if self.arm.c10 {
            let v = self.c10.on(rec, &ch, &pres, fo.as_ref(), conn_pre, codec, acc);
            self.gate(true, v)?;
        } else {
            // keep the incarnation shadow in step for start_inc()
            self.c10.inc = rec.post.snap.incarnation;
        }
        run!(self.arm.c13, |a: &mut Acc| self.c13.on(rec, conn_pre, conn_post, a));
        run!(self.arm.c11, |a: &mut Acc| self.c11.on(rec, &pres, epoch_pre, codec, a));
        run!(self.arm.c12, |a: &mut Acc| self.c12.on(rec, &pres, conn_pre, conn_post, epoch_pre, codec, a));
        run!(self.arm.c19, |a: &mut Acc| self.c19.on(rec, &ch, codec, a));
        if self.arm.c15 || self.arm.c16 {
            let hcfg = self.hcfg;
            let v = self.acct.on(rec, &pres, codec, &hcfg, acc);
            self.gate(true, v)?;
        }
        // A call that fails with an Encode error (packets too small for a header: only the C07/C06/C17 workloads use
        // them) stops half-way: e.g. an identity renewal whose gossip cannot be encoded returns before Rejoin is
        // notified. The notification-driven shadows would then drift for the rest of the history (the C07 header
        // rules use them), so - unless C08 itself is being judged - they are re-based on the hook snapshot.
        if matches!(rec.res, Res::Err(EK::Encode)) && !self.arm.c08 {
            let want = match rec.post.snap.connection_state {
                0 => basic::Conn::Idle,
                1 => basic::Conn::Active,
                _ => basic::Conn::Defunct,
            };
            if self.c08.conn != want || self.c08.up.len() != rec.post.active.len() {
                acc.tally("shadows_rebased_after_encode_error", 1);
            }
            self.c08.conn = want;
            self.c08.up = rec.post.active.iter().copied().collect();
        }
        Ok(())
    }
}
