//! In-call identity chain: the identity can change in the middle of a call
//! (Suspect(self) → gossip as the old identity, Down(self) → renew → gossip as
//! the new one, possibly more than once) and `Rejoin` is notified after the
//! new identity's first gossip. Monitors that need "the sender's identity at
//! send time" use this chain, not `identity()` at return.
use crate::codecs::CodecKind;
use crate::ids::{renewed_ok, Id};
use crate::node::{CallRec, Ev, Op, Res, EK};
use crate::run::V;
use crate::wire::{self, Parsed};
use foca::OwnedNotification as N;

pub struct Chain {
    /// identity in force for each event of the call (same indexing as rec.evs)
    pub at: Vec<Id>,
    /// parsed form of each Send event (None for other events / unparsable)
    pub parsed: Vec<Option<Result<Parsed, String>>>,
    pub start: Id,
    pub end: Id,
    /// identities used during the call, in order
    pub ids: Vec<Id>,
}

pub fn start_identity(rec: &CallRec) -> Id {
    match (&rec.op, &rec.res) {
        (Op::ChangeId(_), Res::Err(EK::SameIdentity)) => rec.pre.id,
        (Op::ChangeId(n), _) => *n,
        _ => rec.pre.id,
    }
}

pub fn chain(rec: &CallRec, codec: CodecKind) -> Result<Chain, V> {
    let start = start_identity(rec);
    let mut cur = start;
    let mut at = Vec::with_capacity(rec.evs.len());
    let mut parsed = Vec::with_capacity(rec.evs.len());
    let mut ids = vec![cur];
    for ev in &rec.evs {
        match ev {
            Ev::Send { data, .. } => {
                let p = wire::parse(codec, data);
                if let Ok(pp) = &p {
                    let src = pp.header.src;
                    if src != cur {
                        if Some(src) == renewed_ok(&cur) {
                            // keep the renew policy (not part of the wire format)
                            cur = renewed_ok(&cur).unwrap();
                            ids.push(cur);
                        } else {
                            return Err(V::new(
                                "C07/src-not-current-identity",
                                format!(
                                    "datagram {:?} claims source {src:?} but the sender's identity at send time is {cur:?}",
                                    pp.header.message
                                ),
                            ));
                        }
                    }
                }
                at.push(cur);
                parsed.push(Some(p));
            }
            Ev::Notify(N::Rejoin(x)) => {
                if *x != cur {
                    if Some(*x) == renewed_ok(&cur) {
                        cur = renewed_ok(&cur).unwrap();
                        ids.push(cur);
                    } else {
                        return Err(V::new(
                            "C07/rejoin-identity",
                            format!("Rejoin({x:?}) does not name the renewed form of {cur:?}"),
                        ));
                    }
                }
                at.push(cur);
                parsed.push(None);
            }
            _ => {
                at.push(cur);
                parsed.push(None);
            }
        }
    }
    // a call that failed half-way with an encode error (packet too small for a header: outside the
    // configurations the properties quantify over) may have switched identity without getting to tell
    let aborted = matches!(rec.res, Res::Err(EK::Encode));
    if !rec.res.is_panic() && !aborted && cur != rec.post.id {
        return Err(V::new(
            "C07/identity-chain-end",
            format!("identity() is {:?} after the call but the call's datagrams/notifications end with {cur:?}", rec.post.id),
        ));
    }
    Ok(Chain { at, parsed, start, end: cur, ids })
}
