//! Always-on boundary monitors: C07 (datagram grammar), C08 (notification
//! mirror + connection automaton), C09 (one record per address, forward-only
//! identities, payload discard), C19 (never the own address as destination).
use crate::codecs::CodecKind;
use crate::ensure;
use crate::ids::Id;
use crate::mon::chain::Chain;
use crate::mon::presented::{FoldOut, Presented};
use crate::node::{CallRec, Ev, Op, Res, EK};
use crate::run::{Acc, Verdict, V};
use crate::wire::{self, kind_name};
use foca::{Identity, Message, OwnedNotification as N, State, Timer};
use std::collections::{BTreeMap, BTreeSet};

// ---------------------------------------------------------------- C07

#[derive(Default)]
pub struct C07 {
    pub datagrams: u64,
}

impl C07 {
    /// Grammar, size, source identity, Feed content of every datagram of the call.
    pub fn on(&mut self, rec: &CallRec, ch: &Chain, fo: Option<&FoldOut>, acc: &mut Acc) -> Verdict {
        let mps = rec.cfg_pre.mps;
        for (i, ev) in rec.evs.iter().enumerate() {
            let Ev::Send { to, data } = ev else { continue };
            self.datagrams += 1;
            ensure!(data.len() <= mps, "C07/len>max_packet_size", "datagram of {} bytes with max_packet_size {mps}", data.len());
            let p = match ch.parsed[i].as_ref().expect("send has parse") {
                Ok(p) => p,
                Err(e) => {
                    return Err(V::new("C07/grammar", format!("datagram to {to:?} violates the grammar: {e}; bytes {}", crate::util::hex(data))))
                }
            };
            acc.tally(&format!("datagram/{}", kind_name(&p.header.message)), 1);
            ensure!(p.header.src == ch.at[i], "C07/src-not-current-identity", "src {:?} but identity at send time {:?}", p.header.src, ch.at[i]);
            ensure!(p.header.dst == *to, "C07/dst-mismatch", "header dst {:?} but handed over for {to:?}", p.header.dst);
            // ... and the sender's incarnation: one of the values the suspicions presented so far explain
            if let Some(fo) = fo {
                if let Some(j) = fo.fold.ids.iter().position(|x| *x == ch.at[i]) {
                    ensure!(
                        fo.fold.incs[j].contains(&p.header.src_incarnation),
                        "C07/src-incarnation",
                        "header carries incarnation {} for {:?}; the sender's incarnation can only be one of {:?}",
                        p.header.src_incarnation,
                        ch.at[i],
                        fo.fold.incs[j]
                    );
                }
            }
            if wire::piggybacks(&p.header.message) && p.members.is_none() {
                ensure!(
                    p.items.is_empty(),
                    "C07/items-without-member-section",
                    "{} without a member section carries custom items",
                    kind_name(&p.header.message)
                );
                ensure!(
                    mps - p.header_len <= 2,
                    "C07/missing-member-section",
                    "{} has no member count although {} bytes were left after the header",
                    kind_name(&p.header.message),
                    mps - p.header_len
                );
            }
            if let Some(ms) = &p.members {
                acc.tally("members_carried", ms.len() as u64);
                if ms.is_empty() {
                    acc.tally("datagrams_with_zero_count", 1);
                }
            }
            if !p.items.is_empty() {
                acc.tally("custom_items_carried", p.items.len() as u64);
            }
            if p.header.message == Message::Feed {
                let ms = p.members.as_deref().unwrap_or(&[]);
                let mut seen = BTreeSet::new();
                for m in ms {
                    ensure!(m.state() != State::Down, "C07/feed-lists-down", "Feed lists {m:?}");
                    ensure!(
                        rec.post.is_active(m.id()),
                        "C07/feed-lists-non-member",
                        "Feed lists {m:?} which is not an active member (active: {:?})",
                        rec.post.active
                    );
                    ensure!(*m.id() != *to, "C07/feed-lists-receiver", "Feed to {to:?} lists the receiver");
                    ensure!(m.id().addr != ch.at[i].addr, "C07/feed-lists-sender", "Feed lists the sender's own address {m:?}");
                    ensure!(seen.insert(*m.id()), "C07/feed-duplicate", "Feed lists {:?} twice", m.id());
                }
                acc.tally("feed_members", ms.len() as u64);
            }
        }
        Ok(())
    }
}

// ---------------------------------------------------------------- C08

#[derive(Clone, Copy, Debug, PartialEq, Eq)]
pub enum Conn {
    Idle,
    Active,
    Defunct,
}

pub struct C08 {
    pub up: BTreeSet<Id>,
    pub conn: Conn,
    pub check_hook: bool,
}

impl Default for C08 {
    fn default() -> Self {
        C08 { up: BTreeSet::new(), conn: Conn::Idle, check_hook: true }
    }
}

impl C08 {
    pub fn connected(&self) -> bool {
        self.conn == Conn::Active
    }

    /// `fo`: fold of the self-directed updates of this call (None when the
    /// call returned an error half-way and the fold is not reliable).
    pub fn on(&mut self, rec: &CallRec, fo: Option<&FoldOut>, acc: &mut Acc) -> Verdict {
        // user-driven resets are silent
        match (&rec.op, &rec.res) {
            (Op::ChangeId(_), Res::Err(EK::SameIdentity)) => {}
            (Op::ChangeId(_), _) => self.conn = Conn::Idle,
            (Op::Reuse, Res::Ok) => self.conn = Conn::Idle,
            _ => {}
        }
        let conn_at_entry = self.conn;
        let mut deaths = 0usize;
        for n in rec.notes() {
            match n {
                N::MemberUp(x) => {
                    ensure!(self.up.insert(*x), "C08/memberup-twice", "MemberUp({x:?}) for a member already up ({:?})", self.up);
                    acc.tally("note/MemberUp", 1);
                }
                N::MemberDown(x) => {
                    ensure!(self.up.remove(x), "C08/memberdown-not-up", "MemberDown({x:?}) for a member that is not up ({:?})", self.up);
                    acc.tally("note/MemberDown", 1);
                }
                N::Rename(a, b) => {
                    ensure!(a.addr == b.addr && b.win_addr_conflict(a), "C08/rename-invalid", "Rename({a:?},{b:?})");
                    if self.up.remove(a) {
                        ensure!(self.up.insert(*b), "C08/rename-collides", "Rename({a:?},{b:?}) but {b:?} already up");
                    }
                    acc.tally("note/Rename", 1);
                }
                N::Active => {
                    ensure!(self.conn == Conn::Idle, "C08/active-not-from-idle", "Active notified in state {:?}", self.conn);
                    ensure!(!self.up.is_empty(), "C08/active-without-members", "Active notified with no active member");
                    self.conn = Conn::Active;
                    acc.tally("note/Active", 1);
                }
                N::Idle => {
                    ensure!(self.conn == Conn::Active, "C08/idle-not-from-active", "Idle notified in state {:?}", self.conn);
                    ensure!(self.up.is_empty(), "C08/idle-with-members", "Idle notified with members {:?}", self.up);
                    self.conn = Conn::Idle;
                    acc.tally("note/Idle", 1);
                }
                N::Defunct => {
                    self.conn = Conn::Defunct;
                    deaths += 1;
                    acc.tally("note/Defunct", 1);
                }
                N::Rejoin(_) => {
                    self.conn = Conn::Idle;
                    deaths += 1;
                    acc.tally("note/Rejoin", 1);
                }
            }
        }
        if rec.res.is_panic() {
            return Ok(());
        }
        // mirror
        let members: BTreeSet<Id> = rec.post.active.iter().copied().collect();
        ensure!(
            members == self.up && rec.post.num_members == self.up.len(),
            "C08/mirror-mismatch",
            "replaying MemberUp/MemberDown/Rename gives {:?} but iter_members() is {:?} (num_members {})",
            self.up,
            members,
            rec.post.num_members
        );
        // Idle exactly when the last active member disappears while active
        ensure!(
            !(self.conn == Conn::Active && self.up.is_empty()),
            "C08/idle-missing",
            "no active member left but no Idle was notified (entered the call {conn_at_entry:?})"
        );
        // Defunct / Rejoin iff the instance learned or declared its own death
        if let Some(fo) = fo {
            let want = fo.fold.deaths();
            ensure!(
                deaths == want,
                "C08/death-notifications",
                "call presented {} self-death event(s) {:?} (TurnUndead due: {}) but notified {} Defunct/Rejoin",
                want,
                fo.fold.events,
                fo.tu_due,
                deaths
            );
            // Rejoin iff it switched to a renewed identity
            let renewed = fo.fold.ids.len() - 1;
            let rejoins = rec.notes().filter(|n| matches!(n, N::Rejoin(_))).count();
            ensure!(rejoins == renewed, "C08/rejoin-iff-renewed", "{rejoins} Rejoin notifications but {renewed} renewals were due");
            ensure!(
                (rec.post.id != crate::mon::chain::start_identity(rec)) == (renewed > 0),
                "C08/identity-change-unexplained",
                "identity went {:?} -> {:?} with {renewed} renewals due",
                rec.pre.id,
                rec.post.id
            );
        }
        if self.check_hook {
            let want = match self.conn {
                Conn::Idle => 0,
                Conn::Active => 1,
                Conn::Defunct => 2,
            };
            ensure!(
                rec.post.snap.connection_state == want,
                "C08/conn-state-vs-notifications",
                "notifications say {:?} but the instance's connection state is {} (0 idle,1 active,2 defunct)",
                self.conn,
                rec.post.snap.connection_state
            );
        }
        Ok(())
    }
}

// ---------------------------------------------------------------- C09

#[derive(Default)]
pub struct C09 {
    told: BTreeSet<u16>,
    max_seen: BTreeMap<u16, Id>,
}

impl C09 {
    pub fn on(&mut self, rec: &CallRec, pres: &Presented, codec: CodecKind, acc: &mut Acc) -> Verdict {
        // addresses presented to the instance in this call
        let mut named: BTreeSet<u16> = BTreeSet::new();
        match &rec.op {
            Op::Apply(us, _) => {
                for u in us {
                    named.insert(u.id().addr);
                }
            }
            Op::Data(d) => {
                if let Ok((h, hl)) = wire::decode_header(codec, d) {
                    named.insert(h.src.addr);
                    // members, as far as they decode
                    if d.len() >= hl + 2 && h.message != Message::Broadcast {
                        let n = ((d[hl] as usize) << 8) | d[hl + 1] as usize;
                        let mut p = hl + 2;
                        for _ in 0..n {
                            match wire::decode_member(codec, &d[p..]) {
                                Ok((m, l)) => {
                                    named.insert(m.id().addr);
                                    p += l;
                                }
                                Err(_) => break,
                            }
                        }
                    }
                }
            }
            _ => {}
        }
        self.told.extend(named.iter().copied());
        if rec.res.is_panic() {
            return Ok(());
        }
        // no record changes unless the call names its address: a datagram / apply_many names the sender and the
        // members it lists, a suspicion or forget timer its subject, the probe timer the member whose round just
        // ended; the instance's own addresses (before and after the call) cover Down(previous identity).
        // (Catches payload that was supposed to be discarded but is applied by a *later* call.)
        match &rec.op {
            Op::Timer(Timer::ChangeSuspectToDown { member_id, .. }) => {
                named.insert(member_id.addr);
            }
            Op::Timer(Timer::RemoveDown(id)) => {
                named.insert(id.addr);
            }
            Op::Timer(Timer::ProbeRandomMember(_)) => {
                if let Some(t) = &rec.pre.snap.probe_target {
                    named.insert(t.id().addr);
                }
            }
            _ => {}
        }
        named.insert(rec.pre.id.addr);
        named.insert(rec.post.id.addr);
        if let Op::ChangeId(n) = &rec.op {
            named.insert(n.addr);
        }
        for m in rec.pre.state.iter().chain(rec.post.state.iter()) {
            let a = m.id().addr;
            if rec.pre.rec_for_addr(a) != rec.post.rec_for_addr(a) {
                ensure!(
                    named.contains(&a),
                    "C09/unexplained-record-change",
                    "{} changed the record for address {a} ({:?} -> {:?}) although nothing in the call names that address (named: {named:?})",
                    rec.op.name(),
                    rec.pre.rec_for_addr(a),
                    rec.post.rec_for_addr(a)
                );
                acc.tally("record_changes_explained_by_the_call", 1);
            }
        }
        let own = rec.post.id.addr;
        let mut addrs = BTreeSet::new();
        for m in &rec.post.state {
            ensure!(addrs.insert(m.id().addr), "C09/duplicate-address", "two records share address {}: {:?}", m.id().addr, rec.post.state);
            ensure!(
                !(m.id().addr == own && m.state() != State::Down),
                "C09/own-address-active",
                "own address listed as active: {m:?} (identity {:?})",
                rec.post.id
            );
        }
        ensure!(
            rec.post.state.len() <= self.told.len(),
            "C09/more-records-than-addresses",
            "{} records but only {} distinct addresses were ever presented",
            rec.post.state.len(),
            self.told.len()
        );
        // forward-only identities
        let removed_by_timer = match &rec.op {
            Op::Timer(Timer::RemoveDown(id)) => Some(*id),
            _ => None,
        };
        for old in &rec.pre.state {
            let a = old.id().addr;
            match rec.post.rec_for_addr(a) {
                None => {
                    ensure!(
                        removed_by_timer == Some(*old.id()) && old.state() == State::Down,
                        "C09/record-vanished",
                        "record {old:?} disappeared in {}",
                        rec.op.name()
                    );
                    self.max_seen.remove(&a);
                    acc.tally("records_forgotten", 1);
                }
                Some(new) => {
                    if new.id() != old.id() {
                        ensure!(
                            new.id().win_addr_conflict(old.id()),
                            "C09/identity-went-backwards",
                            "record for address {a} went from {:?} to {:?}, which does not win the conflict",
                            old.id(),
                            new.id()
                        );
                        let from_old = rec.notes().any(|n| matches!(n, N::Rename(x, _) if x == old.id()));
                        let to_new = rec.notes().any(|n| matches!(n, N::Rename(_, y) if y == new.id()));
                        ensure!(from_old && to_new, "C09/replace-without-rename", "{:?} replaced by {:?} without Rename", old.id(), new.id());
                        acc.tally("identities_superseded", 1);
                    }
                }
            }
        }
        for n in rec.notes() {
            if let N::Rename(a, b) = n {
                ensure!(a.addr == b.addr && b.win_addr_conflict(a), "C09/rename-not-forward", "Rename({a:?},{b:?})");
            }
        }
        for m in &rec.post.state {
            let e = self.max_seen.entry(m.id().addr).or_insert(*m.id());
            ensure!(
                !e.win_addr_conflict(m.id()),
                "C09/fell-back-to-superseded",
                "record shows {:?} although {:?} had been recorded for this address",
                m.id(),
                e
            );
            *e = *m.id();
        }
        // payload of superseded / Down senders is discarded
        if let Presented::Data { view, processed: false } = pres {
            acc.tally("payload_discard_cases", 1);
            let src = view.header.src;
            ensure!(
                rec.pre.sorted_state() == rec.post.sorted_state(),
                "C09/discarded-payload-applied",
                "datagram from inactive/superseded {src:?} changed the membership: {:?} -> {:?}",
                rec.pre.state,
                rec.post.state
            );
            if view.header.message != Message::TurnUndead {
                for (to, data) in rec.sends() {
                    let k = wire::decode_header(codec, data).map(|(h, _)| h.message);
                    ensure!(
                        *to == src && matches!(k, Ok(Message::TurnUndead)),
                        "C09/reply-to-inactive-sender",
                        "datagram from inactive/superseded {src:?} triggered {k:?} to {to:?}"
                    );
                }
                ensure!(rec.sends().count() <= 1, "C09/reply-to-inactive-sender", "more than one reply to an inactive sender");
            }
            ensure!(rec.hlog.is_empty(), "C09/discarded-payload-delivered", "custom items of inactive/superseded {src:?} reached the handler");
        }
        Ok(())
    }
}

// ---------------------------------------------------------------- C19

#[derive(Default)]
pub struct C19;

impl C19 {
    pub fn on(&mut self, rec: &CallRec, ch: &Chain, codec: CodecKind, acc: &mut Acc) -> Verdict {
        // (a user-driven change_identity may move to another address: its gossip goes out under the new one)
        let own = crate::mon::chain::start_identity(rec).addr;
        // what a peer named in the datagram being handled (relay targets)
        let named: Option<Id> = match &rec.op {
            Op::Data(d) => match wire::decode_header(codec, d) {
                Ok((h, _)) => match h.message {
                    Message::PingReq { target, .. } => Some(target),
                    Message::IndirectAck { target, .. } => Some(target),
                    _ => None,
                },
                _ => None,
            },
            _ => None,
        };
        for (i, ev) in rec.evs.iter().enumerate() {
            let Ev::Send { to, .. } = ev else { continue };
            acc.tally("destinations_checked", 1);
            if to.addr != own {
                continue;
            }
            if let Op::Announce(dst) = &rec.op {
                if dst == to {
                    acc.tally("user_announce_to_own_address", 1);
                    continue;
                }
            }
            let kind = ch.parsed[i].as_ref().and_then(|p| p.as_ref().ok()).map(|p| p.header.message.clone());
            let relay = matches!(
                (&kind, named),
                (Some(Message::IndirectPing { .. }), Some(t)) | (Some(Message::ForwardedAck { .. }), Some(t)) if t == *to
            );
            if relay {
                acc.tally("relay_to_own_address_named_by_peer", 1);
                continue;
            }
            return Err(V::new(
                "C19/own-address-destination",
                format!(
                    "{} sent to {to:?}, which bears the instance's own address (identity {:?}) in {}",
                    kind.as_ref().map(kind_name).unwrap_or("?"),
                    rec.pre.id,
                    rec.op.name()
                ),
            ));
        }
        Ok(())
    }
}
