//! What a call *presents* to the instance, reconstructed from the call's
//! arguments and the pre-state seen through public getters: which updates are
//! processed (in order), whether the datagram is rejected up front, whether the
//! sender counts as active, and the fold of self-directed updates over the
//! identity / incarnation (the "lite" lock-step replay used by C08/C09/C10).
use crate::codecs::CodecKind;
use crate::ids::{renewed_ok, Id};
use crate::model::lattice::{join, MRec};
use crate::node::{CallRec, Op};
use crate::wire;
use foca::{Header, Identity, Member, Message, State};

#[derive(Clone, Debug, PartialEq, Eq)]
pub enum Reject {
    TooBig,
    HeaderUndecodable,
    FromOurselves,
    MalformedAfterHeader,
    NotForUs,
    MemberUndecodable,
}

#[derive(Clone, Debug)]
pub struct DataView {
    pub header: Header<Id>,
    pub header_len: usize,
    /// decoded member section (empty when absent)
    pub members: Vec<Member<Id>>,
    /// offset where the custom-broadcast tail starts
    pub tail_at: usize,
    /// sender is considered active after its header was applied
    pub sender_active: bool,
}

#[derive(Clone, Debug)]
pub enum Presented {
    /// not a call that presents updates
    Nothing,
    /// datagram rejected before any processing (must leave no trace)
    Rejected(Reject),
    /// datagram accepted; `processed` tells whether the payload is applied
    Data { view: DataView, processed: bool },
    /// apply_many
    Apply { updates: Vec<Member<Id>>, broadcast: bool },
}

/// Staged parse mirroring the documented acceptance rules, using only the
/// pre-state visible through public getters.
pub fn presented(rec: &CallRec, codec: CodecKind) -> Presented {
    match &rec.op {
        Op::Apply(us, b) => Presented::Apply { updates: us.clone(), broadcast: *b },
        Op::Data(d) => {
            if d.len() > rec.cfg_pre.mps {
                return Presented::Rejected(Reject::TooBig);
            }
            let Ok((header, hl)) = wire::decode_header(codec, d) else {
                return Presented::Rejected(Reject::HeaderUndecodable);
            };
            let me = rec.pre.id;
            if header.src == me || header.src.addr == me.addr {
                return Presented::Rejected(Reject::FromOurselves);
            }
            let remaining = d.len() - hl;
            if remaining == 1 || (header.message == Message::Announce && remaining > 0) {
                return Presented::Rejected(Reject::MalformedAfterHeader);
            }
            let for_us = header.dst == me || (header.message == Message::Announce && header.dst.addr == me.addr);
            if !for_us {
                return Presented::Rejected(Reject::NotForUs);
            }
            let mut p = hl;
            let mut members = vec![];
            if remaining >= 2 && header.message != Message::Broadcast {
                let n = ((d[p] as usize) << 8) | d[p + 1] as usize;
                p += 2;
                for _ in 0..n {
                    match wire::decode_member(codec, &d[p..]) {
                        Ok((m, l)) => {
                            members.push(m);
                            p += l;
                        }
                        Err(_) => return Presented::Rejected(Reject::MemberUndecodable),
                    }
                }
            }
            // header liveness through the model
            let cur = rec.pre.rec_for_addr(header.src.addr).map(MRec::of);
            let (new, _) = join(cur, MRec { id: header.src, inc: header.src_incarnation, st: State::Alive });
            let sender_active = new.id == header.src && new.active();
            Presented::Data {
                view: DataView { header, header_len: hl, members, tail_at: p, sender_active },
                processed: sender_active,
            }
        }
        _ => Presented::Nothing,
    }
}

#[derive(Clone, Debug, PartialEq, Eq)]
pub enum SelfEvent {
    /// suspicion processed; incarnation after it
    Refuted { about: Id, suspected: u16, inc_after: u16 },
    /// stale suspicion (lower incarnation): still gossips, no bump
    StaleSuspicion { about: Id, suspected: u16 },
    Renewed { old: Id, new: Id },
    Defunct { id: Id },
}

#[derive(Clone, Debug)]
pub struct SelfFold {
    pub id: Id,
    pub inc: u16,
    pub events: Vec<SelfEvent>,
    /// identities taken, in order, starting with the initial one
    pub ids: Vec<Id>,
    /// incarnation values taken per identity (same indexing as ids)
    pub incs: Vec<Vec<u16>>,
    /// the instance is defunct (left, or told it is down without being able to renew):
    /// it no longer refutes suspicions
    pub defunct: bool,
}

impl SelfFold {
    pub fn new(id: Id, inc: u16, defunct: bool) -> Self {
        SelfFold { id, inc, events: vec![], ids: vec![id], incs: vec![vec![inc]], defunct }
    }
    fn death(&mut self) {
        match renewed_ok(&self.id) {
            Some(n) => {
                self.events.push(SelfEvent::Renewed { old: self.id, new: n });
                self.id = n;
                self.inc = 0;
                self.ids.push(n);
                self.incs.push(vec![0]);
                self.defunct = false;
            }
            None => {
                self.events.push(SelfEvent::Defunct { id: self.id });
                self.defunct = true;
            }
        }
    }
    pub fn feed(&mut self, u: &Member<Id>) {
        if *u.id() != self.id {
            return;
        }
        match u.state() {
            State::Alive => {}
            State::Suspect => {
                if self.defunct {
                    // a defunct instance stays silent
                    return;
                }
                let m = u.incarnation().max(self.inc);
                if m == u16::MAX {
                    self.death();
                } else if u.incarnation() >= self.inc {
                    self.inc = m + 1;
                    self.incs.last_mut().unwrap().push(self.inc);
                    self.events.push(SelfEvent::Refuted { about: self.id, suspected: u.incarnation(), inc_after: self.inc });
                } else {
                    self.events.push(SelfEvent::StaleSuspicion { about: self.id, suspected: u.incarnation() });
                }
            }
            State::Down => self.death(),
        }
    }
    pub fn deaths(&self) -> usize {
        self.events.iter().filter(|e| matches!(e, SelfEvent::Renewed { .. } | SelfEvent::Defunct { .. })).count()
    }
    pub fn died(&self) -> bool {
        self.deaths() > 0
    }
}

/// Fold every self-directed update the call presents, starting from
/// (identity, incarnation) in force when the call begins.
///
/// A TurnUndead *message* from an active sender is acted upon only if the
/// instance is still connected after the updates were applied. That is decided
/// from boundary observations: `connected_pre` (the C08-B automaton before the
/// call) and the notifications of the call. `tu_should` reports whether the
/// reaction was due; `tu_acted` whether the notifications show it happened.
pub struct FoldOut {
    pub fold: SelfFold,
    pub tu_due: bool,
    pub tu_acted: bool,
}

pub fn self_fold(rec: &CallRec, pres: &Presented, start_id: Id, start_inc: u16, connected_pre: bool, defunct_pre: bool) -> FoldOut {
    use foca::OwnedNotification as N;
    let mut f = SelfFold::new(start_id, start_inc, defunct_pre);
    let mut tu_due = false;
    let mut tu_acted = false;
    match (&rec.op, pres) {
        (Op::Leave, _) => {
            // declares itself down; no renewal on leave
            f.events.push(SelfEvent::Defunct { id: f.id });
            f.defunct = true;
        }
        (_, Presented::Apply { updates, .. }) => {
            for u in updates {
                f.feed(u);
            }
        }
        (_, Presented::Data { view, processed }) => {
            if *processed {
                for u in &view.members {
                    f.feed(u);
                }
                if view.header.message == Message::TurnUndead {
                    let deaths_upd = f.deaths();
                    let notes: Vec<&N<Id>> = rec.notes().collect();
                    let death_idx: Vec<usize> = notes
                        .iter()
                        .enumerate()
                        .filter(|(_, n)| matches!(n, N::Defunct | N::Rejoin(_)))
                        .map(|(i, _)| i)
                        .collect();
                    // connection state once the updates are done = automaton over the
                    // notifications that belong to the updates
                    let upto = if death_idx.len() > deaths_upd { death_idx[deaths_upd] } else { notes.len() };
                    let mut c = connected_pre;
                    for n in &notes[..upto] {
                        match n {
                            N::Active => c = true,
                            N::Idle | N::Defunct | N::Rejoin(_) => c = false,
                            _ => {}
                        }
                    }
                    tu_due = c;
                    tu_acted = death_idx.len() > deaths_upd;
                    if tu_due {
                        f.feed(&Member::new(f.id, 0, State::Down));
                    }
                }
            } else if view.header.message == Message::TurnUndead {
                tu_due = true;
                tu_acted = rec.notes().any(|n| matches!(n, N::Defunct | N::Rejoin(_)));
                f.feed(&Member::new(f.id, 0, State::Down));
            }
        }
        _ => {}
    }
    FoldOut { fold: f, tu_due, tu_acted }
}

pub fn wins(a: &Id, b: &Id) -> bool {
    a.win_addr_conflict(b)
}
