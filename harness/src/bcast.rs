//! Instrumented BroadcastHandler (user-side code, so instrumenting it is not
//! a hook into foca). Items are
//!   tag:u32be  key:u8  version:u8  padding...
//! Every receive_item call is logged.
use crate::ids::Id;
use foca::{BroadcastHandler, Invalidates};
use serde::{Deserialize, Serialize};
use std::cell::RefCell;
use std::collections::{HashMap, HashSet};
use std::rc::Rc;

#[derive(Clone, Copy, Debug, PartialEq, Eq, Hash, Serialize, Deserialize)]
pub struct HdlCfg {
    /// false ⇒ behaves like NoCustomBroadcast (every item is an error)
    pub enabled: bool,
    /// 0: a new item invalidates items with the same key
    /// 1: ... with the same key and a lower version
    /// 2: arbitrary relation `table[new.key % 4][old.key % 4]`
    pub mode: u8,
    pub table: [[bool; 4]; 4],
    /// bit (addr % 32) set ⇒ should_add_broadcast_data(member) is true
    pub allow_mask: u32,
    /// the handler itself has nothing against an empty item (an opaque-blob handler): foca's own guard is then
    /// all that stands between add_broadcast(&[]) and an empty item on the wire
    pub accept_empty: bool,
}

impl HdlCfg {
    pub const fn disabled() -> Self {
        HdlCfg { enabled: false, mode: 0, table: [[false; 4]; 4], allow_mask: u32::MAX, accept_empty: false }
    }
    pub const fn simple() -> Self {
        HdlCfg { enabled: true, mode: 0, table: [[false; 4]; 4], allow_mask: u32::MAX, accept_empty: false }
    }
    pub fn allows(&self, id: &Id) -> bool {
        self.allow_mask & (1 << (id.addr % 32)) != 0
    }
    pub fn invalidates(&self, new: (u8, u8), old: (u8, u8)) -> bool {
        match self.mode {
            0 => new.0 == old.0,
            1 => new.0 == old.0 && new.1 > old.1,
            _ => self.table[(new.0 % 4) as usize][(old.0 % 4) as usize],
        }
    }
}

#[derive(Debug)]
pub struct HErr(pub &'static str);
impl std::fmt::Display for HErr {
    fn fmt(&self, f: &mut std::fmt::Formatter<'_>) -> std::fmt::Result {
        f.write_str(self.0)
    }
}
impl std::error::Error for HErr {}

#[derive(Clone, Debug)]
pub struct HKey {
    pub tag: u32,
    pub key: u8,
    pub version: u8,
    cfg: HdlCfg,
}

impl Invalidates for HKey {
    fn invalidates(&self, other: &Self) -> bool {
        self.cfg.invalidates((self.key, self.version), (other.key, other.version))
    }
}

#[derive(Clone, Debug)]
pub struct HLogEntry {
    pub data: Vec<u8>,
    pub sender: Option<Id>,
    /// what the handler answered: Some(true) accepted, Some(false) declined, None error
    pub accepted: Option<bool>,
}

pub type HLog = Rc<RefCell<Vec<HLogEntry>>>;

pub struct Hdl {
    pub cfg: HdlCfg,
    pub log: HLog,
    versions: HashMap<u8, u8>,
    seen: HashSet<u32>,
}

impl Hdl {
    pub fn new(cfg: HdlCfg) -> (Self, HLog) {
        let log: HLog = Rc::new(RefCell::new(Vec::new()));
        (Hdl { cfg, log: log.clone(), versions: HashMap::new(), seen: HashSet::new() }, log)
    }
}

pub fn parse_item(data: &[u8]) -> Option<(u32, u8, u8)> {
    if data.is_empty() {
        return None;
    }
    if data.len() < 6 {
        // short items (1..=5 bytes): the whole content is the tag; key from the first byte
        let mut t = [0u8; 4];
        for (i, b) in data.iter().take(4).enumerate() {
            t[i] = *b;
        }
        let tag = u32::from_be_bytes(t) ^ ((data.len() as u32) << 28) ^ (*data.last().unwrap() as u32) << 20 | 0x8000_0000;
        return Some((tag, data[0] % 4, data.len() as u8));
    }
    Some((u32::from_be_bytes([data[0], data[1], data[2], data[3]]), data[4], data[5]))
}

pub fn make_item(tag: u32, key: u8, version: u8, total_len: usize, fill: u8) -> Vec<u8> {
    if total_len < 6 {
        // short item: content derived from the tag so that different tags give different bytes (mostly)
        let t = tag.to_be_bytes();
        return (0..total_len.max(1)).map(|i| t[3 - (i % 4)] ^ key.wrapping_mul(17) ^ version ^ (i as u8)).collect();
    }
    let mut v = Vec::with_capacity(total_len);
    v.extend_from_slice(&tag.to_be_bytes());
    v.push(key);
    v.push(version);
    while v.len() < total_len {
        v.push(fill);
    }
    v
}

impl BroadcastHandler<Id> for Hdl {
    type Key = HKey;
    type Error = HErr;

    fn receive_item(&mut self, data: &[u8], sender: Option<&Id>) -> Result<Option<HKey>, HErr> {
        let mut entry = HLogEntry { data: data.to_vec(), sender: sender.copied(), accepted: None };
        if !self.cfg.enabled {
            self.log.borrow_mut().push(entry);
            return Err(HErr("broadcasts disabled"));
        }
        let parsed = if data.is_empty() && self.cfg.accept_empty { Some((0xE000_0000, 0, 1)) } else { parse_item(data) };
        let Some((tag, key, version)) = parsed else {
            self.log.borrow_mut().push(entry);
            return Err(HErr("empty item"));
        };
        let fresh = match self.cfg.mode {
            0 | 1 => match self.versions.get(&key) {
                Some(v) if *v >= version => false,
                _ => {
                    self.versions.insert(key, version);
                    true
                }
            },
            _ => self.seen.insert(tag),
        };
        entry.accepted = Some(fresh);
        self.log.borrow_mut().push(entry);
        Ok(fresh.then_some(HKey { tag, key, version, cfg: self.cfg }))
    }

    fn should_add_broadcast_data(&self, member: &Id) -> bool {
        self.cfg.allows(member)
    }
}
