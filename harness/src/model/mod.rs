pub mod lattice;
