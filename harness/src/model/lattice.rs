//! Reference model of SWIM's precedence order, written from the statement of
//! C01 (not from member.rs): per address keep one record; identities sharing
//! an address are ordered by the address-conflict winner; for one identity,
//! Down is top, otherwise (incarnation, Suspect > Alive) lexicographically.
use crate::ids::Id;
use foca::{Identity, Member, State};
use std::collections::BTreeMap;

#[derive(Clone, Copy, Debug, PartialEq, Eq)]
pub struct MRec {
    pub id: Id,
    pub inc: u16,
    pub st: State,
}

impl MRec {
    pub fn of(m: &Member<Id>) -> Self {
        MRec { id: *m.id(), inc: m.incarnation(), st: m.state() }
    }
    pub fn active(&self) -> bool {
        self.st != State::Down
    }
    /// rank within one identity; Down is a single top element
    pub fn rank(&self) -> (u8, u16, u8) {
        match self.st {
            State::Down => (1, 0, 0),
            State::Suspect => (0, self.inc, 1),
            State::Alive => (0, self.inc, 0),
        }
    }
    /// self ≤ other in the precedence order (same address assumed)
    pub fn le(&self, other: &MRec) -> bool {
        if self.id == other.id {
            self.rank() <= other.rank()
        } else {
            other.id.win_addr_conflict(&self.id)
        }
    }
    /// comparable form: the incarnation next to Down is not significant
    pub fn view(&self) -> (Id, u8, u16) {
        match self.st {
            State::Down => (self.id, 2, 0),
            State::Suspect => (self.id, 1, self.inc),
            State::Alive => (self.id, 0, self.inc),
        }
    }
}

/// What applying `u` to `cur` does according to the model
#[derive(Clone, Copy, Debug, PartialEq, Eq)]
pub enum Outcome {
    /// first record for this address
    New,
    /// same identity moved forward
    Advanced,
    /// a winning identity replaced the record
    Replaced(Id),
    /// update is not above the current record: nothing changes
    Stale,
}

pub fn join(cur: Option<MRec>, u: MRec) -> (MRec, Outcome) {
    match cur {
        None => (u, Outcome::New),
        Some(c) => {
            if c.id != u.id {
                if u.id.win_addr_conflict(&c.id) {
                    (u, Outcome::Replaced(c.id))
                } else {
                    (c, Outcome::Stale)
                }
            } else if u.rank() > c.rank() {
                (u, Outcome::Advanced)
            } else {
                (c, Outcome::Stale)
            }
        }
    }
}

#[derive(Clone, Debug, Default, PartialEq, Eq)]
pub struct MView(pub BTreeMap<u16, MRec>);

impl MView {
    pub fn apply(&mut self, u: MRec) -> Outcome {
        let (n, o) = join(self.0.get(&u.id.addr).copied(), u);
        self.0.insert(u.id.addr, n);
        o
    }
    pub fn from_members<'a>(ms: impl Iterator<Item = &'a Member<Id>>) -> Self {
        let mut v = MView::default();
        for m in ms {
            v.0.insert(m.id().addr, MRec::of(m));
        }
        v
    }
    pub fn view(&self) -> Vec<(Id, u8, u16)> {
        self.0.values().map(|r| r.view()).collect()
    }
    pub fn num_active(&self) -> usize {
        self.0.values().filter(|r| r.active()).count()
    }
}
